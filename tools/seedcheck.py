#!/usr/bin/env python3
"""Confirm seeded changes independently and file them under /verif/seeded/<prop>_<i>/.

For every /tmp/seed_<prop>/_out/mut_<i>.diff : in a scratch worktree of /repo (outside /repo and /verif)
  1. the demo passes on the unchanged tree,
  2. the patch applies, the crate builds, and the existing suite passes with it (default and all features),
  3. the demo fails with the patch.
Only then is the change kept (patch.diff, demo.rs, meta.json with what was run)."""
import glob
import json
import os
import re
import shutil
import subprocess
import sys

VERIF = os.path.dirname(os.path.dirname(os.path.abspath(__file__)))
TARGET = '/var/tmp/sv_target'


def sh(cmd, cwd, timeout=1200):
    env = dict(os.environ, CARGO_TARGET_DIR=TARGET, CARGO_NET_OFFLINE='true')
    p = subprocess.run(cmd, cwd=cwd, shell=True, capture_output=True, text=True, env=env, timeout=timeout)
    return p.returncode, (p.stdout + p.stderr)


def suite_ok(wt):
    ok = True
    notes = []
    for feat in ('', '--all-features'):
        rc, out = sh('cargo test --offline %s 2>&1 | grep -E "^test result|FAILED|^error" ' % feat, wt)
        res = re.findall(r'test result: (\w+)\. (\d+) passed; (\d+) failed', out)
        good = bool(res) and all(r[0] == 'ok' and r[2] == '0' for r in res) and not re.search(r'^error', out, re.M)
        notes.append({'cmd': 'cargo test --offline %s' % feat, 'results': res, 'ok': good})
        ok = ok and good
    return ok, notes


def demo_result(wt, feat='--all-features'):
    rc, out = sh('cargo test --offline %s --test demo 2>&1 | tail -40' % feat, wt)
    res = re.findall(r'test result: (\w+)\. (\d+) passed; (\d+) failed', out)
    if not res:
        return None, out[-1500:]
    return all(r[0] == 'ok' for r in res) and sum(int(r[1]) for r in res) > 0, out[-1500:]


def reconfirm(names):
    """re-run the three confirmations for changes already filed under /verif/seeded (after /repo moved on)"""
    for name in names:
        dest = os.path.join(VERIF, 'seeded', name)
        wt = '/var/tmp/sv_%s' % name
        subprocess.run('git -C /repo worktree remove --force %s' % wt, shell=True, capture_output=True)
        shutil.rmtree(wt, ignore_errors=True)
        subprocess.run('git -C /repo worktree add -q --detach %s HEAD' % wt, shell=True, capture_output=True, text=True)
        try:
            os.makedirs(os.path.join(wt, 'tests'), exist_ok=True)
            shutil.copy(os.path.join(dest, 'demo.rs'), os.path.join(wt, 'tests', 'demo.rs'))
            base_ok, _ = demo_result(wt)
            os.remove(os.path.join(wt, 'tests', 'demo.rs'))
            rc, out2 = sh('git apply %s' % os.path.join(dest, 'patch.diff'), wt)
            s_ok, notes = suite_ok(wt)
            shutil.copy(os.path.join(dest, 'demo.rs'), os.path.join(wt, 'tests', 'demo.rs'))
            mut_ok, out3 = demo_result(wt)
            verdict = rc == 0 and (base_ok is True) and s_ok and (mut_ok is False)
            print(name, 'RECONFIRMED' if verdict else 'REJECTED', 'apply=%d base_demo=%s suite=%s mut_demo=%s' % (rc, base_ok, s_ok, mut_ok), flush=True)
            m = json.load(open(os.path.join(dest, 'meta.json')))
            m.setdefault('reconfirmed', []).append({'head': subprocess.run('git -C /repo rev-parse HEAD', shell=True, capture_output=True, text=True).stdout.strip(),
                                                    'ok': verdict, 'base_demo': base_ok, 'suite': s_ok, 'mut_demo': mut_ok,
                                                    'note': 'patch ported to the current tree (original kept as patch.orig.diff)' if os.path.exists(os.path.join(dest, 'patch.orig.diff')) else ''})
            json.dump(m, open(os.path.join(dest, 'meta.json'), 'w'), indent=1)
        finally:
            subprocess.run('git -C /repo worktree remove --force %s' % wt, shell=True, capture_output=True)
            shutil.rmtree(wt, ignore_errors=True)
    shutil.rmtree(TARGET, ignore_errors=True)


def main():
    if len(sys.argv) > 1 and sys.argv[1] == '--reconfirm':
        return reconfirm(sys.argv[2:])
    only = sys.argv[1:]
    # round 1 lives in /tmp/seed_<prop>, round N in /tmp/seedN_<prop> (filed as <prop>_<2N-1>, <prop>_<2N>)
    for d in sorted(glob.glob('/tmp/seed_*/_out')) + sorted(glob.glob('/tmp/seed[0-9]_*/_out')):
        mm = re.match(r'seed(\d?)_(\w+)$', d.split('/')[2])
        rnd = int(mm.group(1) or 1)
        prop = mm.group(2)
        if only and prop not in only:
            continue
        for j in (1, 2):
            i = j + 2 * (rnd - 1)
            diff = os.path.join(d, 'mut_%d.diff' % j)
            demo = os.path.join(d, 'demo_%d.rs' % j)
            meta = os.path.join(d, 'meta_%d.json' % j)
            dest = os.path.join(VERIF, 'seeded', '%s_%d' % (prop, i))
            if not (os.path.exists(diff) and os.path.exists(demo)):
                print(prop, i, 'missing files')
                continue
            if os.path.exists(os.path.join(dest, 'meta.json')):
                print(prop, i, 'already filed')
                continue
            wt = '/var/tmp/sv_%s_%d' % (prop, i)
            subprocess.run('git -C /repo worktree remove --force %s' % wt, shell=True, capture_output=True)
            shutil.rmtree(wt, ignore_errors=True)
            rc = subprocess.run('git -C /repo worktree add -q --detach %s HEAD' % wt, shell=True, capture_output=True, text=True)
            if rc.returncode != 0:
                print(prop, i, 'worktree failed', rc.stderr)
                continue
            record = {'steps': []}
            try:
                os.makedirs(os.path.join(wt, 'tests'), exist_ok=True)
                shutil.copy(demo, os.path.join(wt, 'tests', 'demo.rs'))
                base_ok, out = demo_result(wt)
                record['steps'].append({'step': 'demo on unchanged tree', 'passes': base_ok})
                os.remove(os.path.join(wt, 'tests', 'demo.rs'))
                rc, out2 = sh('git apply %s' % diff, wt)
                record['steps'].append({'step': 'git apply', 'rc': rc, 'out': out2[-300:]})
                if rc != 0:
                    print(prop, i, 'PATCH DOES NOT APPLY')
                    continue
                s_ok, notes = suite_ok(wt)
                record['steps'].append({'step': 'existing suite with the change', 'ok': s_ok, 'runs': notes})
                shutil.copy(demo, os.path.join(wt, 'tests', 'demo.rs'))
                mut_ok, out3 = demo_result(wt)
                record['steps'].append({'step': 'demo with the change', 'passes': mut_ok, 'tail': out3[-600:]})
                verdict = (base_ok is True) and s_ok and (mut_ok is False)
                print(prop, i, 'CONFIRMED' if verdict else 'REJECTED', 'base_demo=%s suite=%s mut_demo=%s' % (base_ok, s_ok, mut_ok), flush=True)
                if verdict:
                    os.makedirs(dest, exist_ok=True)
                    shutil.copy(diff, os.path.join(dest, 'patch.diff'))
                    shutil.copy(demo, os.path.join(dest, 'demo.rs'))
                    m = json.load(open(meta)) if os.path.exists(meta) else {}
                    m['property'] = prop
                    m['confirmed_by'] = record
                    m['base_commit'] = subprocess.run('git -C /repo rev-parse HEAD', shell=True, capture_output=True, text=True).stdout.strip()
                    json.dump(m, open(os.path.join(dest, 'meta.json'), 'w'), indent=1)
            finally:
                subprocess.run('git -C /repo worktree remove --force %s' % wt, shell=True, capture_output=True)
                shutil.rmtree(wt, ignore_errors=True)
    shutil.rmtree(TARGET, ignore_errors=True)


if __name__ == '__main__':
    main()
