#!/usr/bin/env python3
"""writes MANIFEST.json from the per-property table below (single source for level texts)"""
import json, os, sys
HERE = os.path.dirname(os.path.abspath(__file__))
VERIF = os.path.dirname(HERE)
sys.path.insert(0, os.path.join(VERIF, 'contracts'))
import claims  # noqa

checks = []
for pid, c in sorted(claims.CLAIMS.items()):
    checks.append({
        'property_id': pid,
        'quick_cmd': 'python3 tools/check.py %s --tier quick' % pid,
        'thorough_cmd': 'python3 tools/check.py %s --tier thorough' % pid,
        'evidence_file': 'evidence/%s.json' % pid,
        'replay_cmd_template': 'python3 tools/check.py --replay {path}',
        'engine': c.get('engine', 'contracts'),
        'level_claimed': {'category': c['category'], 'text': c['text'], 'design_ref': c.get('design_ref', 'DESIGN.md §4 ' + pid)},
        'level_note': c['note'],
        'technique': c['technique'],
    })
man = {
    'version': 1,
    'setup_cmd': claims.SETUP_CMD,
    'hooks': {
        'guard': 'kani',
        'enable': 'none needed: /repo carries no instrumentation; contracts are spliced into an extracted copy (Verus) or injected into a scratch copy built with `cargo kani` (cfg(kani)): two modules (kverif, format::kformat) and, for the parser loop obligations, two #[cfg(kani)] observation-point calls added mechanically to the scratch copy of Formatter::parse_internal (tools/kanirun.py insert_parse_hooks; add-only, inert unless a parse_ind_* harness arms them)',
        'baseline_off_cmd': 'cd /repo && cargo test --workspace --no-fail-fast --offline',
        'source_commits': [],
        'add_only': True,
    },
    'engines': [
        {'name': 'contracts', 'path': 'tools/check.py', 'serves_properties': sorted(claims.CLAIMS),
         'kind_free_text': 'contract-based deductive verification: Verus (SMT) on functions extracted mechanically from /repo/src on every run; Kani/CBMC function contracts and full-domain harnesses injected into a scratch copy'}],
    'checks': checks,
    'not_applicable': [{'property_id': k, 'reason': v} for k, v in sorted(claims.NOT_APPLICABLE.items())],
    'notes': claims.NOTES,
}
json.dump(man, open(os.path.join(VERIF, 'MANIFEST.json'), 'w'), indent=1)
print('MANIFEST.json: %d checks, %d not_applicable' % (len(checks), len(man['not_applicable'])))
