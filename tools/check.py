#!/usr/bin/env python3
"""check.py <property-id> [--tier quick|thorough]   decide one property on /repo's working tree
   check.py --replay <file>                          re-execute a recorded counterexample

exit 0  every obligation of the property was discharged (known findings are printed, not alarmed)
exit 1  an obligation was refuted; prints `VIOLATION property=<id> replay=<path>[ no-failing-input-found]`
exit 2  undecided: extraction anchor lost, tool failure, resource limit (never an alarm)
"""
import argparse
import hashlib
import json
import os
import re
import shutil
import subprocess
import sys
import tempfile
import time

HERE = os.path.dirname(os.path.abspath(__file__))
VERIF = os.path.dirname(HERE)
sys.path.insert(0, HERE)
sys.path.insert(0, os.path.join(VERIF, 'contracts'))
import verusrun  # noqa: E402
import propmap  # noqa: E402
import claims  # noqa: E402

REPO = os.environ.get('VERIF_REPO', '/repo')
RETRY_SEEDS = [11, 23, 37]


def log(*a):
    print(*a, flush=True)


def load_known():
    p = os.path.join(VERIF, 'known_findings.json')
    if not os.path.exists(p):
        return []
    return json.load(open(p)).get('findings', [])


def match_items(items, patterns):
    out = []
    for it in items:
        if it.get('mode') != 'verified' and not it.get('mode', '').startswith(('external_body', 'demoted')):
            continue
        if any(re.search(p, it['item']) for p in patterns):
            out.append(it)
    return out


def close_over_callees(res, mine):
    """add the functions under contract that the listed functions call, where the callee is unambiguous from the text:
    free functions and constants of `common` (unique names), and `self.m(..)` / `Self::m(..)` / `Type::m(..)` methods.
    (A call through a variable of unknown type is not followed: the property map lists those callees explicitly.)"""
    lines = open(res.unit_path, encoding='utf-8').read().split('\n')
    ok = lambda it: it.get('lines') and it.get('kind') in ('fn', 'const') and (it.get('mode') == 'verified' or it.get('mode', '').startswith(('external_body', 'demoted')))
    free = {}
    meth = {}
    for it in res.items:
        if not ok(it):
            continue
        name = it.get('fn') or it['item'].split()[-1]
        if it['item'].startswith('common :: '):
            free.setdefault(name, []).append(it)
        m = re.match(r'^(\w+) :: impl (?:\w+(?:<[^>]*>)? for )?(\w+) / ', it['item'])
        if m:
            meth.setdefault((m.group(1), m.group(2), name), []).append(it)
    seen = set(i['item'] for i in mine)
    work = list(mine)
    out = list(mine)
    while work:
        it = work.pop()
        if not it.get('lines') or it.get('kind') not in ('fn', 'const', 'law'):
            continue
        a, b = it['lines']
        body = '\n'.join(lines[(it.get('body_line') or a) - 1:b])
        cands = []
        for name in set(re.findall(r'(?<![\w.:])([a-z_]\w*)\s*\(', body)) | set(re.findall(r'\b([A-Z][A-Z0-9_]{3,})\b', body)):
            cands += free.get(name, [])
        m = re.match(r'^(\w+) :: impl (?:\w+(?:<[^>]*>)? for )?(\w+) / ', it['item'])
        if m:
            mod, ty = m.group(1), m.group(2)
            for name in set(re.findall(r'\b(?:self\.|Self::)(\w+)\s*\(', body)):
                cands += meth.get((mod, ty, name), [])
            for t2, name in set(re.findall(r'\b([A-Z]\w+)::(\w+)\s*\(', body)):
                if t2 == ty:
                    cands += meth.get((mod, ty, name), [])
        for c in cands:
            if c['item'] not in seen:
                seen.add(c['item'])
                out.append(c)
                work.append(c)
    return out


def verus_phase(prop, spec, workdir, ev):
    """returns (status, refuted, undecided) ; status in ok/fatal"""
    res = verusrun.run(REPO, workdir)
    ev['verus'] = {'cmd': res.cmd, 'wall_s': round(res.wall_s, 2), 'verified_total': res.verified, 'errors_total': res.errors,
                   'solver_ms_total': getattr(res, 'solver_ms', None)}
    if res.fatal:
        return 'fatal', res.fatal, res
    if not res.canary_failed:
        return 'fatal', 'vacuity canary did not fail: the verifier is not checking anything', res
    mine = match_items(res.items, spec['verus'])
    if mine:
        mine = close_over_callees(res, mine)
    kinds = spec['kinds']
    kf_open = {k['obligation']: k for k in load_known() if k.get('status') == 'open' and k.get('property') == prop and k.get('obligation')}
    verified_items = [i for i in mine if (i['mode'] == 'verified' or i['mode'].startswith('demoted')) and i['item'] not in kf_open]
    kf_items = [i for i in mine if i['mode'] == 'verified' and i['item'] in kf_open]
    res.kf_lines = []
    res.kf_gone = []
    for it in kf_items:
        fl = [f for f in res.failures.get(it['item'], []) if f['kind'] not in ('rlimit', 'missing')]
        if fl:
            res.kf_lines.append('KNOWN-FINDING: property=%s %s' % (prop, kf_open[it['item']]['what']))
        else:
            res.kf_gone.append(it['item'])
    assumed_items = [i for i in mine if i['mode'].startswith('external_body')]
    failing = {}
    for it in verified_items:
        fl = res.failures.get(it['item'], [])
        rel = [f for f in fl if f['kind'] in kinds or f['kind'] in ('rlimit', 'unsupported')]
        if rel:
            failing[it['item']] = rel
        if not res.checked.get(it['item'], False):
            failing.setdefault(it['item'], []).append({'kind': 'missing', 'message': 'obligation not seen in the verifier breakdown', 'rendered': ''})
    retried = {}
    if failing:
        # a failed query is only believed after it failed under other seeds with a larger budget as well
        mods = sorted(set(i['module'] for i in verified_items if i['item'] in failing and i.get('module')))
        still = dict(failing)
        for seed in RETRY_SEEDS:
            r2 = verusrun.run(REPO, workdir + '_retry%d' % seed, seed=seed, rlimit=60, only_modules=mods)
            if r2.fatal:
                break
            for key in list(still):
                fl = [f for f in r2.failures.get(key, []) if f['kind'] in kinds or f['kind'] in ('rlimit', 'unsupported')]
                if not fl and not any(f['kind'] == 'missing' for f in still[key]):
                    retried[key] = {'discharged_with_seed': seed, 'first_failure': still[key][0]['kind']}
                    del still[key]
                elif fl and all(f['kind'] not in ('rlimit', 'unsupported') for f in fl):
                    still[key] = fl     # keep the most informative (non-rlimit) failure
            if not still:
                break
        failing = still
    refuted, undecided = {}, {}
    for key, fl in failing.items():
        real = [f for f in fl if f['kind'] not in ('rlimit', 'missing', 'unsupported')]
        if real:
            refuted[key] = real
        else:
            undecided[key] = fl
    ev['verus'].update({'obligations': len(verified_items), 'discharged': len(verified_items) - len(refuted) - len(undecided),
                        'assumed_here_discharged_by_kani': [{'item': i['item'], 'by': i.get('note', '')} for i in assumed_items],
                        'needed_retry': retried})
    res.mine = verified_items
    res.assumed = assumed_items
    return 'ok', (refuted, undecided), res


def obligation_samples(res, items, n=4):
    lines = open(res.unit_path, encoding='utf-8').read().split('\n')
    out = []
    for it in items[:n]:
        a, b = it['lines']
        end = it.get('body_line', min(b, a + 25))
        out.append({'obligation': it['item'], 'contract_as_checked': '\n'.join(lines[a - 1:min(end - 1, a + 40)]),
                    'source_sha256': it.get('sha256'), 'rewrites': it.get('rewrites', [])})
    return out


def write_replay(prop, name, payload):
    d = os.environ.get('VERIF_REPLAY_DIR', os.path.join(VERIF, 'work', 'replays'))
    os.makedirs(d, exist_ok=True)
    p = os.path.join(d, '%s_%s.json' % (prop, re.sub(r'[^A-Za-z0-9_]+', '_', name)[:80]))
    json.dump(payload, open(p, 'w'), indent=1)
    return p


def main():
    ap = argparse.ArgumentParser()
    ap.add_argument('prop', nargs='?')
    ap.add_argument('--tier', default=os.environ.get('VERIF_TIER', 'quick'))
    ap.add_argument('--replay')
    ap.add_argument('--keep', action='store_true')
    a = ap.parse_args()
    if a.replay:
        import replay
        sys.exit(replay.replay_file(a.replay, REPO))
    prop = a.prop
    if prop not in propmap.PROPS:
        log('unknown property', prop)
        sys.exit(2)
    seed = int(os.environ.get('VERIF_SEED', '0') or 0)
    spec = propmap.PROPS[prop]
    t0 = time.time()
    workroot = tempfile.mkdtemp(prefix='verif_%s_' % prop, dir=os.environ.get('VERIF_SCRATCH', '/var/tmp'))
    level = claims.CLAIMS.get(prop, {}).get('category', 'proof')
    ev = {'property_id': prop, 'tier': a.tier, 'seed': seed, 'level': level, 'coverage': {}, 'assumptions': [], 'wall_s': 0.0, 'violations': 0}
    exit_code = 0
    violations = []
    undecided_all = {}
    known_lines = []
    try:
        obligations = 0
        discharged = 0
        samples = []
        trusted = []
        per_obl = []
        # ------------------------------------------------------------ Verus
        res = None
        if spec['verus']:
            st, payload, res = verus_phase(prop, spec, os.path.join(workroot, 'verus'), ev)
            if st == 'fatal':
                log('UNDECIDED property=%s reason=%s' % (prop, str(payload)[:3000]))
                ev['coverage'] = {'obligations': 0, 'discharged': 0, 'checker_cmd': ev.get('verus', {}).get('cmd', 'verus unit.rs'),
                                  'trusted_base': [], 'explanation': 'undecided: ' + str(payload)[:1000], 'samples': []}
                exit_code = 2
                return finish(ev, prop, t0, exit_code)
            refuted, undecided = payload
            obligations += ev['verus']['obligations']
            discharged += ev['verus']['discharged']
            undecided_all.update(undecided)
            samples += obligation_samples(res, res.mine)
            for it in res.mine:
                bn = [k for k in res.times if k.endswith('::' + (it.get('fn') or '?'))]
                per_obl.append({'obligation': it['item'], 'backend': 'verus/z3', 'status': 'refuted' if it['item'] in refuted else
                                ('undecided' if it['item'] in undecided else 'discharged'),
                                'solver_ms': max([res.times[k][0] for k in bn], default=None), 'rlimit': max([res.times[k][1] for k in bn], default=None)})
            ieee_items = set(i['item'] for i in res.items if 'ieee-ops-named' in (i.get('rewrites') or []))
            for key, fl in refuted.items():
                violations.append({'backend': 'verus', 'obligation': key, 'failures': fl, 'ieee_structural': key in ieee_items})
            known_lines += res.kf_lines
            if res.kf_gone:
                ev['known_findings_no_longer_reproduced'] = res.kf_gone
            # assumption scan
            for k, hits in res.scan.items():
                for h in hits:
                    trusted.append('verus unit line %d: %s %s' % (h['line'], k, h['next'] or h['text']))
        # ------------------------------------------------------------ Kani
        kani_harnesses = []
        try:
            import kanirun
            kani_harnesses = kanirun.harnesses_for(prop, a.tier)
        except ImportError:
            kanirun = None
        bounded = []
        timed_out = []
        if kani_harnesses:
            kres = kanirun.run(REPO, kani_harnesses, os.path.join(workroot, 'kani'), a.tier, seed, concrete='replayable-only')
            ev['kani'] = kres['summary']
            if kres.get('fatal'):
                log('UNDECIDED property=%s reason=kani: %s' % (prop, kres['fatal'][:3000]))
                exit_code = 2
            for h in kres['harnesses']:
                rec = {'obligation': 'kani::' + h['name'], 'backend': 'kani/cbmc', 'status': h['status'], 'solver_s': h.get('time_s'),
                       'complete': h['complete'], 'bound': h.get('bound')}
                per_obl.append(rec)
                if h['complete']:
                    obligations += 1
                    if h['status'] == 'discharged':
                        discharged += 1
                else:
                    bounded.append({'harness': h['name'], 'bound': h.get('bound'), 'status': h['status'], 'time_s': h.get('time_s')})
                if h['status'] == 'refuted':
                    violations.append({'backend': 'kani', 'obligation': 'kani::' + h['name'], 'failures': h.get('failures', []),
                                       'counterexample': h.get('counterexample'), 'native': h.get('native'),
                                       'playback_deferred': h.get('playback_deferred')})
                elif h['status'] == 'undecided':
                    hreg = kanirun.HREG.H.get(h['name'], {})
                    if a.tier == 'thorough' and hreg.get('tier') == 'thorough' and h.get('reason') in ('timeout', 'no result in output'):
                        # a thorough-only obligation that ran out of its time budget explored nothing: reported, not a verdict
                        timed_out.append({'harness': h['name'], 'reason': h.get('reason'), 'budget_s': hreg.get('timeout_s')})
                    else:
                        undecided_all['kani::' + h['name']] = [{'kind': h.get('reason', 'undecided'), 'message': h.get('detail', '')[:500]}]
                if h.get('sample'):
                    samples.append(h['sample'])
            trusted += kres.get('trusted', [])
        # ------------------------------------------------------------ verdict
        # an obligation that is merely undischarged (resource limit) is not a refutation; it becomes a violation
        # only if the native replayer finds a concrete failing input on the real code (DESIGN.md 2.4)
        for key in list(undecided_all):
            if key.startswith('kani::'):
                continue
            try:
                import replay
                found = replay.search(prop, {'obligation': key}, REPO, seed)
            except ImportError:
                found = None
            if found and found.get('input'):
                violations.append({'backend': 'verus', 'obligation': key, 'failures': undecided_all[key], 'presearched': found})
                del undecided_all[key]
        known = load_known()
        real_violations = []
        for v in violations:
            found = v.get('presearched')
            if found is None:
                try:
                    import replay
                    found = replay.search(prop, v, REPO, seed)
                except ImportError:
                    found = None
            v['search'] = found
            if v.get('playback_deferred') and not (found and found.get('input')):
                try:
                    v['counterexample'] = kanirun.playback_only(REPO, v['obligation'].split('::', 1)[1], os.path.join(workroot, 'kani_playback'))
                except Exception as e:      # never let the playback break the verdict
                    v['counterexample'] = None
            if v.get('ieee_structural') and not (found and found.get('input')):
                # a contract over uninterpreted IEEE operations is syntactic (x*k and k*x are different terms): a failed
                # proof with a clean native search is not a refutation -> undecided, never an alarm
                undecided_all[v['obligation']] = [{'kind': 'proof-failed-over-uninterpreted-ieee-operations-native-search-clean',
                                                   'message': (found or {}).get('domain', '')}]
                continue
            if found and found.get('exhaustive') and not found.get('input') and v['backend'] == 'verus':
                # the whole domain of the function was replayed natively without a failing input:
                # the proof attempt failed but the property demonstrably holds -> undecided, not an alarm
                undecided_all[v['obligation']] = [{'kind': 'proof-failed-but-exhaustive-replay-clean', 'message': found.get('domain', '')}]
                continue
            kf = match_known(known, prop, v)
            if kf is not None:
                known_lines.append('KNOWN-FINDING: property=%s %s' % (prop, kf['what']))
                continue
            real_violations.append(v)
        for v in real_violations:
            payload = {'property': prop, 'obligation': v['obligation'], 'backend': v['backend'],
                       'verifier_output': [f.get('rendered') or f.get('message') for f in v['failures']][:6],
                       'failing_input': (v.get('search') or {}).get('input'), 'search': v.get('search'),
                       'counterexample': v.get('counterexample'),
                       'how_to_replay': 'python3 tools/check.py --replay <this file>'}
            rp = write_replay(prop, v['obligation'], payload)
            has_input = bool(payload['failing_input'] or payload['counterexample'])
            log('VIOLATION property=%s replay=%s%s' % (prop, rp, '' if has_input else ' no-failing-input-found'))
            exit_code = 1
        for l in known_lines:
            log(l)
        if exit_code == 0 and undecided_all:
            for k, fl in undecided_all.items():
                log('UNDECIDED property=%s obligation=%s reason=%s' % (prop, k, fl[0]['kind']))
            exit_code = 2
        ev['violations'] = len(real_violations)
        cov = {'obligations': obligations, 'discharged': discharged,
               'checker_cmd': '; '.join(x for x in [ev.get('verus', {}).get('cmd'), (ev.get('kani') or {}).get('cmd')] if x) or 'none',
               'trusted_base': sorted(set(trusted)), 'samples': samples[:8], 'per_obligation': per_obl, 'bounded': bounded,
               'undecided': sorted(undecided_all), 'known_findings': known_lines, 'thorough_only_timed_out': timed_out,
               'not_reached': claims.NOT_REACHED.get(prop, []),
               # generic counts (every obligation incl. bounded ones that was run / that was discharged)
               'evaluations': len(per_obl), 'distinct_nontrivial': len([o for o in per_obl if o['status'] == 'discharged']),
               'rule': 'one evaluation = one named obligation (extracted function, lemma, law or Kani harness) run on this tree; counted when discharged'}
        if res is not None:
            cov['extraction'] = {'items_total': len(res.items),
                                 'under_contract': len([i for i in res.items if i.get('mode') == 'verified' and i['kind'] in ('fn', 'const')]),
                                 'assumed_external_body': [i['item'] for i in res.items if i.get('mode', '').startswith('external_body')],
                                 'not_extracted': len([i for i in res.items if i.get('mode') == 'not-extracted']),
                                 'rewrites': sorted(set(r.split(':')[0] for i in res.items for r in i.get('rewrites', [])))}
        ev['coverage'] = cov
        ev['assumptions'] = assumptions_for(prop)
        return finish(ev, prop, t0, exit_code)
    finally:
        if not a.keep:
            shutil.rmtree(workroot, ignore_errors=True)
        else:
            log('kept', workroot)


def match_known(known, prop, v):
    for k in known:
        if k.get('status') != 'open' or k.get('property') != prop:
            continue
        if k.get('obligation') != v['obligation']:
            continue
        inp = (v.get('search') or {}).get('input') or v.get('counterexample')
        pred = k.get('input_predicate')
        if pred and inp:
            try:
                if not eval(pred, {'__builtins__': {}}, dict(inp)):
                    continue
            except Exception:
                continue
        elif pred and not inp:
            continue
        return k
    return None


def assumptions_for(prop):
    base = ['Verus 0.2026.09.13 / Z3 and their encoding of Rust integer, cast and truncating / % semantics',
            'the extraction rewrites of DESIGN.md 2.1 preserve semantics (closed list, recorded per item in coverage.extraction)',
            'const evaluation of a const fn equals its runtime evaluation',
            'assume_specification for i32/i64::is_negative and i64::abs (textbook specs)']
    return base


def finish(ev, prop, t0, exit_code):
    ev['wall_s'] = round(time.time() - t0, 2)
    ev['exit_code'] = exit_code
    evdir = os.environ.get('VERIF_EVIDENCE_DIR', os.path.join(VERIF, 'evidence'))
    os.makedirs(evdir, exist_ok=True)
    json.dump(ev, open(os.path.join(evdir, prop + '.json'), 'w'), indent=1)
    cov = ev.get('coverage', {})
    log('%s tier=%s obligations=%s discharged=%s violations=%s wall=%.1fs exit=%d' % (
        prop, ev['tier'], cov.get('obligations'), cov.get('discharged'), ev.get('violations'), ev['wall_s'], exit_code))
    return exit_code


if __name__ == '__main__':
    sys.exit(main())
