#!/usr/bin/env python3
"""Light-weight, token-aware Rust item splitter used by the extractor.

It does not parse expressions.  It removes comments, finds top-level items and the
items of `impl` blocks by bracket matching (string/char/lifetime aware) and splits a
`fn` item into (attributes, qualifiers, name, generics, params, return type, body).
Everything between the braces of a body is kept verbatim.
"""
import hashlib
import re


class ParseError(Exception):
    pass


def strip_comments(src):
    """Remove // and /* */ comments (string/char aware).  Newlines are kept."""
    out = []
    i, n = 0, len(src)
    while i < n:
        c = src[i]
        if c == '/' and i + 1 < n and src[i + 1] == '/':
            j = src.find('\n', i)
            if j < 0:
                j = n
            i = j
            continue
        if c == '/' and i + 1 < n and src[i + 1] == '*':
            depth, j = 1, i + 2
            while j < n and depth:
                if src.startswith('/*', j):
                    depth += 1
                    j += 2
                elif src.startswith('*/', j):
                    depth -= 1
                    j += 2
                else:
                    if src[j] == '\n':
                        out.append('\n')
                    j += 1
            i = j
            continue
        j = skip_literal(src, i)
        if j != i:
            out.append(src[i:j])
            i = j
            continue
        out.append(c)
        i += 1
    return ''.join(out)


def skip_literal(s, i):
    """If a string / raw string / char literal starts at i return the index after it,
    otherwise return i.  Lifetimes ('a) are not literals."""
    n = len(s)
    c = s[i]
    if c == '"':
        j = i + 1
        while j < n:
            if s[j] == '\\':
                j += 2
                continue
            if s[j] == '"':
                return j + 1
            j += 1
        raise ParseError('unterminated string')
    if c in 'rb' and (i == 0 or not (s[i - 1].isalnum() or s[i - 1] == '_')):
        m = re.match(r'(?:br|rb|r)(#*)"', s[i:])
        if m:
            close = '"' + m.group(1)
            j = s.find(close, i + len(m.group(0)))
            if j < 0:
                raise ParseError('unterminated raw string')
            return j + len(close)
        if s.startswith('b"', i):
            return skip_literal(s, i + 1)
        if s.startswith("b'", i):
            return skip_literal(s, i + 1)
    if c == "'":
        # char literal: '\x', 'x', '\u{..}' ; lifetime otherwise
        if i + 1 < n and s[i + 1] == '\\':
            j = s.find("'", i + 3)
            if j < 0:
                raise ParseError('unterminated char')
            return j + 1
        if i + 2 < n and s[i + 2] == "'":
            return i + 3
        # multi-byte char literal such as 'é' is still one python char -> handled above
        return i
    return i


OPEN = {'(': ')', '[': ']', '{': '}'}
CLOSE = {')', ']', '}'}


def match_bracket(s, i):
    """s[i] is an opening bracket; return index of the matching closing bracket."""
    assert s[i] in OPEN, (s[i], s[max(0, i - 40):i + 40])
    stack = [OPEN[s[i]]]
    j = i + 1
    n = len(s)
    while j < n:
        k = skip_literal(s, j)
        if k != j:
            j = k
            continue
        c = s[j]
        if c in OPEN:
            stack.append(OPEN[c])
        elif c in CLOSE:
            if c != stack[-1]:
                raise ParseError('bracket mismatch at %d: %r' % (j, s[max(0, j - 60):j + 20]))
            stack.pop()
            if not stack:
                return j
        j += 1
    raise ParseError('unbalanced bracket')


def find_top(s, i, chars):
    """first index >= i of a char in `chars` at bracket depth 0 (angle brackets ignored)."""
    n = len(s)
    while i < n:
        k = skip_literal(s, i)
        if k != i:
            i = k
            continue
        c = s[i]
        if c in chars:
            return i
        if c in OPEN:
            i = match_bracket(s, i) + 1
            continue
        i += 1
    return -1


class Item:
    def __init__(self, kind, text, attrs, start, end):
        self.kind = kind      # use const static type struct enum impl fn trait mod macro other
        self.text = text      # text without attributes
        self.attrs = attrs    # list of attribute strings
        self.start = start
        self.end = end
        self.name = None
        self.header = None    # for impl/trait/mod: text before '{'
        self.items = None     # sub items for impl/mod
        self.fn = None        # FnParts

    def sha(self):
        return hashlib.sha256(self.text.encode()).hexdigest()

    def __repr__(self):
        return '<%s %s>' % (self.kind, self.name or self.header)


class FnParts:
    pass


_VIS = r'(?:pub\s*(?:\([^)]*\))?\s*)?'
_KIND_RE = re.compile(
    r'^(?P<vis>' + _VIS + r')'
    r'(?P<quals>(?:(?:default|const|async|unsafe|extern\s*"[^"]*")\s+)*)'
    r'(?P<kw>(?:use|const|static|type|struct|enum|union|impl|fn|trait|mod)\b|macro_rules\s*!)')


def split_items(s):
    """Split module-level (or impl-level) source text into Items."""
    items = []
    i, n = 0, len(s)
    while True:
        while i < n and s[i].isspace():
            i += 1
        if i >= n:
            break
        start = i
        attrs = []
        while s.startswith('#', i):
            j = i + 1
            if s[j] == '!':
                j += 1
            while s[j].isspace():
                j += 1
            if s[j] != '[':
                raise ParseError('bad attribute at %d' % i)
            k = match_bracket(s, j)
            attrs.append(s[i:k + 1])
            i = k + 1
            while i < n and s[i].isspace():
                i += 1
        m = _KIND_RE.match(s[i:i + 200])
        if not m:
            raise ParseError('unrecognised item at: %r' % s[i:i + 80])
        kw = m.group('kw')
        quals = m.group('quals')
        # `const fn` / `unsafe fn` / `unsafe impl`
        rest = s[i + m.end():]
        if kw == 'const' and re.match(r'\s*(?:unsafe\s+)?fn\b', rest):
            m2 = re.match(r'\s*(?:unsafe\s+)?fn\b', rest)
            quals = quals + 'const ' + ('unsafe ' if 'unsafe' in m2.group(0) else '')
            kw = 'fn'
            kwend = i + m.end() + m2.end()
        else:
            kwend = i + m.end()
        item_start = i
        if kw in ('use', 'type', 'const', 'static'):
            j = find_top(s, kwend, ';')
            if j < 0:
                raise ParseError('no ; for %s' % kw)
            end = j + 1
            it = Item(kw, s[item_start:end], attrs, start, end)
            mm = re.match(r'\s*(?:mut\s+)?([A-Za-z_][A-Za-z0-9_]*)', s[kwend:])
            it.name = mm.group(1) if mm and kw != 'use' else None
        elif kw in ('struct', 'union'):
            j = find_top(s, kwend, ';{')
            if s[j] == '{':
                end = match_bracket(s, j) + 1
            else:
                end = j + 1
            it = Item('struct', s[item_start:end], attrs, start, end)
            it.name = re.match(r'\s*([A-Za-z_][A-Za-z0-9_]*)', s[kwend:]).group(1)
        elif kw == 'enum':
            j = find_top(s, kwend, '{')
            end = match_bracket(s, j) + 1
            it = Item('enum', s[item_start:end], attrs, start, end)
            it.name = re.match(r'\s*([A-Za-z_][A-Za-z0-9_]*)', s[kwend:]).group(1)
        elif kw in ('impl', 'trait', 'mod'):
            j = find_top(s, kwend, '{;')
            if s[j] == ';':
                end = j + 1
                it = Item(kw, s[item_start:end], attrs, start, end)
                it.name = s[kwend:j].strip()
            else:
                k = match_bracket(s, j)
                end = k + 1
                it = Item(kw, s[item_start:end], attrs, start, end)
                it.header = ' '.join(s[item_start:j].split())
                it.header = re.sub(r'^' + _VIS, '', it.header)
                it.inner = s[j + 1:k]
                if kw in ('impl', 'mod'):
                    it.items = split_items(it.inner)
                it.name = it.header
        elif kw == 'fn':
            j = find_top(s, kwend, '{;')
            if j < 0:
                raise ParseError('fn without body')
            if s[j] == ';':
                end = j + 1
                body = None
            else:
                k = match_bracket(s, j)
                end = k + 1
                body = s[j + 1:k]
            it = Item('fn', s[item_start:end], attrs, start, end)
            f = FnParts()
            f.vis = m.group('vis').strip()
            f.quals = quals.split()
            sig = s[kwend:j]
            mm = re.match(r'\s*([A-Za-z_][A-Za-z0-9_]*)\s*', sig)
            f.name = mm.group(1)
            p = mm.end()
            f.generics = ''
            if p < len(sig) and sig[p] == '<':
                depth, q = 0, p
                while True:
                    if sig[q] == '<':
                        depth += 1
                    elif sig[q] == '>' and sig[q - 1] != '-':
                        depth -= 1
                        if depth == 0:
                            break
                    q += 1
                f.generics = sig[p:q + 1]
                p = q + 1
            while sig[p].isspace():
                p += 1
            if sig[p] != '(':
                raise ParseError('fn %s: no params' % f.name)
            q = match_bracket(sig, p)
            f.params = sig[p + 1:q]
            tail = sig[q + 1:].strip()
            f.ret = None
            f.where = ''
            if tail.startswith('->'):
                tail = tail[2:].strip()
                w = re.search(r'\bwhere\b', tail)
                if w:
                    f.where = tail[w.start():]
                    tail = tail[:w.start()].strip()
                f.ret = tail
            elif tail:
                f.where = tail
            f.body = body
            it.fn = f
            it.name = f.name
        else:  # macro_rules!
            j = find_top(s, kwend, '{(')
            k = match_bracket(s, j)
            end = k + 1
            if s[j] == '(':
                e2 = find_top(s, end, ';')
                end = e2 + 1
            it = Item('macro', s[item_start:end], attrs, start, end)
        items.append(it)
        i = end
    return items


def cut_test_modules(items):
    """drop `#[cfg(test)] mod ... {}` items"""
    out = []
    for it in items:
        if any(re.sub(r'\s', '', a) == '#[cfg(test)]' for a in it.attrs):
            continue
        out.append(it)
    return out


def split_params(params):
    """split a parameter list at top-level commas"""
    res, depth, cur = [], 0, []
    i = 0
    s = params
    while i < len(s):
        c = s[i]
        if c in '([{<':
            depth += 1
        elif c in ')]}>':
            if not (c == '>' and i > 0 and s[i - 1] == '-'):
                depth -= 1
        if c == ',' and depth == 0:
            res.append(''.join(cur).strip())
            cur = []
        else:
            cur.append(c)
        i += 1
    last = ''.join(cur).strip()
    if last:
        res.append(last)
    return res


def parse_file(path):
    src = open(path, encoding='utf-8').read()
    return cut_test_modules(split_items(strip_comments(src)))


if __name__ == '__main__':
    import sys
    for p in sys.argv[1:]:
        for it in parse_file(p):
            print(it.kind, it.name)
            if it.items:
                for s in it.items:
                    print('    ', s.kind, s.name)
