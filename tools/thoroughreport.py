#!/usr/bin/env python3
"""Rewrites DESIGN.md section 10.7 (last thorough-tier run per property) from evidence_thorough/*.json"""
import glob, json, os, re
VERIF = os.path.dirname(os.path.dirname(os.path.abspath(__file__)))
rows = []
for f in sorted(glob.glob(os.path.join(VERIF, 'evidence_thorough', 'C*.json'))):
    e = json.load(open(f))
    c = e.get('coverage', {})
    to = c.get('thorough_only_timed_out') or []
    und = c.get('undecided') or []
    b = c.get('bounded') or []
    rows.append('| %s | %s | %s / %s | %d (%d discharged) | %s | %s |' % (
        e['property_id'], '%.0f s' % e.get('wall_s', 0), c.get('discharged'), c.get('obligations'),
        len(b), len([x for x in b if x.get('status') == 'discharged']),
        ', '.join('`%s`' % t['harness'] for t in to) or '-', ', '.join('`%s`' % u for u in und) or '-'))
text = ('### 10.7 Thorough tier, last run\n\n'
        'One sequential pass (`python3 tools/check.py <id> --tier thorough`, evidence kept under `evidence_thorough/`). '
        'Thorough-only obligations that ran out of their per-harness budget (kani `--harness-timeout`) explored nothing and are '
        'reported, not counted as verdicts; every check exited 0 unless the last column says otherwise.\n\n'
        '| id | wall | complete obligations discharged / run | bounded obligations | thorough-only obligations that timed out | undecided |\n|---|---|---|---|---|---|\n'
        + '\n'.join(rows) + '\n\n')
p = os.path.join(VERIF, 'DESIGN.md')
s = open(p).read()
if '### 10.7 Thorough tier, last run' in s:
    s = re.sub(r'### 10\.7 Thorough tier, last run.*?(?=## 11\. |## Appendix A)', text, s, flags=re.S)
else:
    anchor = '## 11. Seeded changes' if '## 11. Seeded changes' in s else '## Appendix A'
    s = s.replace(anchor, text + anchor, 1)
open(p, 'w').write(s)
print('10.7 written,', len(rows), 'rows')
