#!/usr/bin/env python3
"""Native counterexample search / replay on the real code (replayer crate, path dependency on the tree under check)."""
import json, os, re, shutil, subprocess, sys
HERE = os.path.dirname(os.path.abspath(__file__))
VERIF = os.path.dirname(HERE)
TARGET = os.environ.get('VERIF_REPLAYER_TARGET', os.path.join(VERIF, 'work', 'replayer_target'))

# obligation (item key regex) -> oracles worth searching
ORACLES = [
    (r'common :: fn julian2date|date :: impl Date / fn extract|impl DateTime for Date / fn (year|month|day)|spec :: proof fn lemma_(j2d|stage)', ['date_extract']),
    (r'common :: fn (date2julian|is_leap_year|days_of_month)|impl Date / fn (from_ymd_unchecked|try_from_ymd|is_valid|validate_ymd)|const (UNIX_EPOCH_JULIAN|DATE_M)', ['date_from_ymd', 'date_extract']),
    (r'common :: fn is_valid_date|impl Date / fn (try_from_days|from_days_unchecked|days)', ['date_from_days', 'date_add_sub_days']),
    (r'impl Date / fn (add_days|sub_days|sub_date)', ['date_add_sub_days']),
    (r'kani::date_day_of_week|impl Date / fn day_of_week', ['date_day_of_week']),
    (r'impl Date / fn (add_interval_ym_internal|add_interval_ym|sub_interval_ym)', ['date_add_months']),
    (r'impl Timestamp / fn (add_interval_ym|sub_interval_ym)|oracle :: impl Date / fn (add|sub)_interval_ym', ['ts_add_months']),
    (r'fn last_day_of_month', ['last_day_of_month']),
    (r'date :: impl Trunc for Date|kani::date_trunc|date :: fn (sub_to_date|current_date)', ['date_trunc']),
    (r'date :: impl Round for Date|kani::date_round|fn round_(week|month_start_week)_internal', ['date_round']),
    (r'timestamp :: impl Trunc for Timestamp', ['ts_trunc']),
    (r'timestamp :: impl Round for Timestamp', ['ts_round']),
    (r'oracle :: impl Trunc for Date', ['od_trunc']),
    (r'oracle :: impl Round for Date', ['od_round']),
    (r'impl Timestamp / fn (new|extract|date|time)|impl DateTime for Timestamp|impl Date / fn (and_time|and_zero_time|and_hms)', ['ts_split']),
    (r'time :: impl Time / fn (try_from_hms|is_valid|validate_hms|extract|from_hms_unchecked|try_from_usecs)|common :: fn is_valid_time', ['time_tuple']),
    (r'time :: impl Time / fn (add_interval_dt|sub_interval_dt)', ['time_add_interval']),
    (r'interval :: impl Interval(YM|DT) / fn (try_from_ym|is_valid_ym|try_from_dhms|is_valid|extract|from_ym_unchecked|from_dhms_unchecked|is_valid_months|try_from_months|is_valid_usecs|try_from_usecs)', ['interval_ctor']),
    (r'oracle :: impl (From<Timestamp> for Date|Date / fn (try_from_usecs|is_valid_date|new))', ['od_from_timestamp']),
    (r'oracle :: impl Date / fn (add|sub)_days|oracle :: impl Timestamp / fn oracle_(add|sub)_days|kani::od_add_days', ['od_add_days']),
    (r'timestamp :: impl Timestamp / fn (add|sub)_days|kani::ts_(add|sub)_days', ['ts_add_days']),
    (r'fn (mul_f64|div_f64)$|kani::(dt|ym)_(mul|div)_f64|kani::(mul|div)_f64_', ['scale_f64']),
    (r'kani::scan_parse_fraction', ['fraction_round', 'parse_grid']),
    (r'oracle :: impl Date / fn sub_date$|kani::od_sub_date', ['od_sub_date']),
    (r'common :: fn is_valid_time|impl Time / fn try_from_usecs|impl From<IntervalDT> for Time|impl From<Time> for IntervalDT', ['time_interval_conv']),
    (r'impl DateTime for \w+ / fn second$|kani::second_accessor', ['second_accessor']),
    (r'impl Date / fn and_hms|impl From<Timestamp> for Time / fn from', ['and_hms']),
    (r'impl (Date|Timestamp) / fn (add_time|sub_time|sub_timestamp|sub_date|add_interval_dt|sub_interval_dt)|impl Interval(DT|YM) / fn (add|sub)_interval_(dt|ym)|impl (Timestamp|IntervalDT|IntervalYM) / fn try_from_(usecs|months)', ['linear_arith']),
    (r'impl Partial(Eq|Ord)<\w+> for \w+ / fn (eq|partial_cmp)', ['mixed_cmp']),
    (r'impl TryFrom<&?NaiveDateTime> for (IntervalDT|Time|Timestamp) / fn try_from', ['naive_carry']),
    (r'kani::(parse_ind|parse_pic|parse_glue|parse_one_field|scan_|token_roundtrip)|impl TryFrom<&?NaiveDateTime> for (Date|Time|Timestamp) / fn try_from|format :: impl NaiveDateTime / fn adjust_hour12', ['parse_grid']),
    (r'kani::(fmt_glue|fmt_tokens|tables_|week_day_name|naive_fraction|write_u32)|impl From<(Date|Time|Timestamp|IntervalDT)> for NaiveDateTime / fn from|format :: impl NaiveDateTime / fn |common :: fn the_day_of_year', ['format_grid']),
]


def build(repo):
    """build the replayer against `repo`; returns a private copy of the binary (the target dir is shared and locked)"""
    import fcntl, tempfile
    src = os.path.join(VERIF, 'replayer')
    os.makedirs(TARGET, exist_ok=True)
    lockf = open(os.path.join(TARGET, '.verif_lock'), 'w')
    fcntl.flock(lockf, fcntl.LOCK_EX)
    try:
        work = os.path.join(VERIF, 'work', 'replayer_crate')
        shutil.rmtree(work, ignore_errors=True)
        os.makedirs(os.path.join(work, 'src'))
        shutil.copy(os.path.join(src, 'src', 'main.rs'), os.path.join(work, 'src', 'main.rs'))
        open(os.path.join(work, 'Cargo.toml'), 'w').write(open(os.path.join(src, 'Cargo.toml.in')).read().replace('@REPO@', os.path.abspath(repo)))
        env = dict(os.environ, CARGO_NET_OFFLINE='true', CARGO_TARGET_DIR=TARGET)
        p = subprocess.run(['cargo', 'build', '--release', '--offline', '-q'], cwd=work, capture_output=True, text=True, env=env)
        if p.returncode != 0:
            return None, p.stderr[-2000:]
        fd, private = tempfile.mkstemp(prefix='replayer_', dir=os.environ.get('VERIF_SCRATCH', '/var/tmp'))
        os.close(fd)
        shutil.copy(os.path.join(TARGET, 'release', 'replayer'), private)
        os.chmod(private, 0o755)
        return private, ''
    finally:
        fcntl.flock(lockf, fcntl.LOCK_UN)
        lockf.close()


def oracles_for(obligation):
    out = []
    for pat, names in ORACLES:
        if re.search(pat, obligation):
            for n in names:
                if n not in out:
                    out.append(n)
    if obligation.startswith('oracle :: '):
        # the SQL-date searches (every day number) say nothing about the Oracle-style type of the same name
        spec = [n for n in out if not n.startswith('date_')]
        out = spec or out
    # the cheap, specific searches first
    slow = ('date_extract', 'date_from_ymd', 'date_from_days', 'date_add_sub_days', 'date_add_months', 'ts_add_months', 'ts_split', 'date_trunc', 'date_round')
    out.sort(key=lambda n: n in slow)
    return out


def search(prop, violation, repo, seed):
    names = oracles_for(violation['obligation'])
    if not names:
        return {'searched': [], 'input': None, 'exhaustive': False, 'note': 'no native oracle for this obligation'}
    exe, err = build(repo)
    if exe is None:
        return {'searched': names, 'input': None, 'exhaustive': False, 'note': 'replayer did not build: ' + err}
    results = []
    all_exh = True
    import atexit
    atexit.register(lambda: os.path.exists(exe) and os.remove(exe))
    for n in names:
        try:
            p = subprocess.run([exe, 'search', n, str(seed)], capture_output=True, text=True, timeout=1800)
            r = json.loads(p.stdout.strip().split('\n')[-1])
        except Exception as e:
            r = {'oracle': n, 'input': None, 'exhaustive': False, 'error': str(e)}
        results.append(r)
        if r.get('input'):
            return {'searched': names, 'input': dict(r['input'], oracle=n), 'exhaustive': False, 'domain': r.get('domain'), 'evaluations': r.get('evaluations'), 'results': results}
        all_exh = all_exh and bool(r.get('exhaustive'))
    return {'searched': names, 'input': None, 'exhaustive': all_exh, 'domain': '; '.join(r.get('domain', '') for r in results),
            'evaluations': sum(r.get('evaluations', 0) for r in results), 'results': results}


def replay_file(path, repo):
    d = json.load(open(path))
    print('replay of', d.get('property'), d.get('obligation'))
    inp = d.get('failing_input')
    if inp and inp.get('oracle'):
        exe, err = build(repo)
        if exe is None:
            print('replayer did not build:', err)
            return 2
        p = subprocess.run([exe, 'search', inp['oracle']], capture_output=True, text=True, timeout=1800)
        r = json.loads(p.stdout.strip().split('\n')[-1])
        if r.get('input'):
            print('REPRODUCED on the real code: %s -> %s (expected %s)' % (r['input']['call'], r['input']['actual'], r['input']['expected']))
            return 1
        print('not reproduced: the oracle %s finds no failing input on this tree' % inp['oracle'])
        return 0
    if d.get('counterexample') and d['counterexample'].get('values'):
        import kreplay
        name = d['obligation'].replace('kani::', '')
        r = kreplay.build_and_run(repo, name, [v['bytes'] for v in d['counterexample']['values']])
        if r.get('replayed') and r.get('reproduced'):
            print('REPRODUCED natively on the real code: harness %s fails at %s: %s' % (name, r.get('panic_at'), r.get('message')))
            print('with the recorded values', [v.get('le_int') for v in d['counterexample']['values']])
            return 1
        if r.get('replayed'):
            print('not reproduced: the harness runs to the end on this tree with the recorded values')
            return 0
        print('native replay not possible (%s); falling back to the recorded values' % r.get('reason'))
    if d.get('counterexample'):
        print('Kani counterexample (concrete playback values):')
        for v in d['counterexample'].get('values', []):
            print('  ', v)
        print(d['counterexample'].get('playback_test', '')[:3000])
        print('re-run: python3 tools/check.py %s   (the harness %s fails with these values)' % (d.get('property'), d.get('obligation')))
        return 1
    print('no failing input was found for this obligation; verifier output follows')
    for o in d.get('verifier_output', []):
        print(o)
    return 1


def setup():
    exe, err = build(os.environ.get('VERIF_REPO', '/repo'))
    if exe is None:
        print('replayer build failed:', err)
        return 1
    return 0


if __name__ == '__main__':
    exe, err = build(os.environ.get('VERIF_REPO', '/repo'))
    print(exe, err)
    for n in sys.argv[1:]:
        print(subprocess.run([exe, 'search', n], capture_output=True, text=True).stdout)
