#!/usr/bin/env python3
"""Mechanical extractor: /repo/src/*.rs  ->  one single-file Verus crate.

The function bodies are copied verbatim from the current working tree; the contract
store (contracts/verus/*.vc) supplies requires/ensures/proof-prelude text keyed by item
path.  The closed list of rewrites applied is the one in DESIGN.md §2.1; every rewrite
that fires is recorded per item in the manifest returned by build_unit().
"""
import json
import os
import re
import sys

sys.path.insert(0, os.path.dirname(os.path.abspath(__file__)))
import rustsrc  # noqa: E402

VERIF = os.path.dirname(os.path.dirname(os.path.abspath(__file__)))

# modules emitted, in order; (module name, source file, strict)
MODULES = [
    ('error', 'error.rs', False),
    ('format', 'format.rs', False),
    ('common', 'common.rs', True),
    ('date', 'date.rs', True),
    ('time', 'time.rs', True),
    ('interval', 'interval.rs', True),
    ('timestamp', 'timestamp.rs', True),
    ('oracle', 'oracle.rs', True),
    ('twins', '@contracts/kani/twins.rs', True),
]

NEWTYPES = {'Date', 'Time', 'Timestamp', 'IntervalYM', 'IntervalDT', 'SqlDate', 'Self'}
KEEP_DERIVES = ['Copy', 'Clone', 'Debug', 'PartialEq', 'Eq', 'PartialOrd', 'Ord']

MODULE_PRELUDE = """\
    #[allow(unused_imports)] use vstd::prelude::*;
    #[allow(unused_imports)] use crate::spec::*;
    #[allow(unused_imports)] use crate::error::*;
    #[allow(unused_imports)] use crate::format::*;
    #[allow(unused_imports)] use crate::common::*;
    #[allow(unused_imports)] use crate::{DateTime, Trunc, Round};
    #[allow(unused_imports)] use std::cmp::Ordering;
    #[allow(unused_imports)] use std::convert::TryFrom;
    #[allow(unused_imports)] use std::ops::Neg;
"""
MODULE_IMPORTS = {
    'error': '',
    'format': '    #[allow(unused_imports)] use crate::date::{Date, Month, WeekDay};\n',
    'common': '',
    'date': '    #[allow(unused_imports)] use crate::time::Time;\n    #[allow(unused_imports)] use crate::timestamp::Timestamp;\n'
            '    #[allow(unused_imports)] use crate::interval::{IntervalDT, IntervalYM};\n',
    'time': '    #[allow(unused_imports)] use crate::date::Date;\n    #[allow(unused_imports)] use crate::timestamp::Timestamp;\n'
            '    #[allow(unused_imports)] use crate::interval::{IntervalDT, IntervalYM};\n',
    'interval': '    #[allow(unused_imports)] use crate::date::Date;\n    #[allow(unused_imports)] use crate::time::Time;\n'
                '    #[allow(unused_imports)] use crate::interval::Sign::{Negative, Positive};\n',
    'timestamp': '    #[allow(unused_imports)] use crate::date::Date;\n    #[allow(unused_imports)] use crate::time::Time;\n'
                 '    #[allow(unused_imports)] use crate::interval::{IntervalDT, IntervalYM};\n',
    'twins': '',
    'oracle': '    #[allow(unused_imports)] use crate::date::Date as SqlDate;\n    #[allow(unused_imports)] use crate::time::Time;\n'
              '    #[allow(unused_imports)] use crate::timestamp::Timestamp;\n'
              '    #[allow(unused_imports)] use crate::interval::{IntervalDT, IntervalYM};\n',
}


class ExtractError(Exception):
    pass


# --------------------------------------------------------------------------- store
class Entry:
    def __init__(self, key, mode, note):
        self.key = key
        self.mode = mode          # verify | external | skip | drop | const | extra
        self.note = note
        self.requires = ''
        self.ensures = ''
        self.proof = ''
        self.extra = ''
        self.ret = 'r'
        self.used = False
        self.origin = None


def norm_key(s):
    s = ' '.join(s.split())
    s = re.sub(r'\s*/\s*', ' / ', s)
    return s


def load_store(path):
    """parse one .vc file"""
    entries = {}
    extras = []
    cur = None
    section = None
    if not os.path.exists(path):
        return entries, extras
    for ln, line in enumerate(open(path, encoding='utf-8'), 1):
        if line.startswith(';;'):
            continue
        if line.startswith('@@'):
            head = line[2:].strip()
            note = ''
            if ' :: ' in head:
                head, note = head.split(' :: ', 1)
            words = head.split(None, 1)
            mode = 'verify'
            optional = False
            if words[0] == 'optional':
                # an entry for an item that exists only on some trees (a hand-written impl replacing a derive): no anchor error when absent
                optional = True
                head = words[1] if len(words) > 1 else ''
                words = head.split(None, 1)
            if words[0] in ('skip', 'external', 'drop', 'extra', 'trusted'):
                mode = words[0]
                head = words[1] if len(words) > 1 else ''
            key = norm_key(head)
            cur = Entry(key, mode, note.strip())
            cur.optional = optional
            cur.origin = '%s:%d' % (os.path.basename(path), ln)
            if mode == 'extra':
                extras.append(cur)
            else:
                if key in entries:
                    raise ExtractError('%s: duplicate contract for %s' % (cur.origin, key))
                entries[key] = cur
            section = 'extra' if mode == 'extra' else None
            continue
        if cur is None:
            if line.strip():
                raise ExtractError('%s:%d: text before first @@' % (path, ln))
            continue
        st = line.strip()
        if section != 'extra' and st in ('requires', 'ensures', 'proof', 'returns'):
            section = st
            continue
        if section is None:
            if st:
                raise ExtractError('%s:%d: text outside a section' % (path, ln))
            continue
        if section == 'returns':
            if st:
                cur.ret = st
            continue
        setattr(cur, section, getattr(cur, section) + line)
    return entries, extras


# --------------------------------------------------------------------------- rewrites
def rewrite_body(body, rewrites, float_params=()):
    """rewrite 5: `a %= b;` -> `a = a % b;` (also other compound forms Verus rejects)"""
    def repl(m):
        rewrites.add('compound-rem-assign')
        return '%s = %s %% %s;' % (m.group(1), m.group(1), m.group(2))
    body = re.sub(r'\b([A-Za-z_][A-Za-z0-9_]*)\s*%=\s*([^;]+);', repl, body)

    return rewrite_float(body, rewrites, float_params)


_CALL = r'ieee_\w+\((?:[^()]|\((?:[^()]|\((?:[^()]|\([^()]*\))*\))*\))*\)'


def rewrite_float(body, rewrites, float_params=()):
    """rewrite 6 (`ieee-ops-named`): Verus leaves every operation on `f64` unspecified.  Each IEEE operation in a
    body is replaced by a named wrapper (external_body, uninterpreted spec: the operation is a function of its
    operands): `X as f64` (X integer) -> ieee_from_i64, `a * b` / `a / b` -> ieee_mul / ieee_div,
    `.round()` -> ieee_round, `.is_infinite()` / `.is_nan()` -> ieee_is_infinite / ieee_is_nan,
    `a as i64|i32` -> ieee_to_i64 / ieee_to_i32, `a == 0.0` -> ieee_is_zero, `-a` -> ieee_neg.
    Which names are doubles is inferred mechanically: parameters typed f64 and `let` bindings of a rewritten
    expression.  An operation on doubles that none of these shapes covers is left alone and stays unproved."""
    if 'f64' not in body and not float_params:
        return body
    floats = set(float_params)
    orig = body
    for _ in range(12):
        before = body
        names = '|'.join(sorted(re.escape(n) for n in floats)) or '(?!x)x'
        atom = r'(?:\b(?:%s)\b(?!\s*\()|%s)' % (names, _CALL)
        # integer -> double
        def conv(m):
            base = m.group(1).split('.')[0].split('::')[0]
            if base in floats or m.group(1).startswith('ieee_'):
                return m.group(0)
            return 'ieee_from_i64(%s as i64)' % m.group(1)
        body = re.sub(r'((?<![\w.)])[A-Za-z_][\w:]*(?:\.\w+\(\))*)\s+as\s+f64\b', conv, body)
        # a parenthesised integer expression (no double inside) converted as a whole
        def conv_paren(m):
            inner = m.group(1)
            if 'ieee_' in inner or re.search(r'\b(?:%s)\b' % names, inner) or 'f64' in inner:
                return m.group(0)
            return 'ieee_from_i64((%s) as i64)' % inner
        body = re.sub(r'(?<![\w>])\(((?:[^()]|\([^()]*\))*)\)\s+as\s+f64\b', conv_paren, body)
        body = re.sub(r'(?<![\w>])\(\s*(%s)\s*\)' % atom, r'\1', body)              # (atom) -> atom, never a call's argument list
        body = re.sub(r'(%s)\s*\*\s*(%s)' % (atom, atom), r'ieee_mul(\1, \2)', body, count=1)
        body = re.sub(r'(%s)\s*/\s*(%s)' % (atom, atom), r'ieee_div(\1, \2)', body, count=1)
        body = re.sub(r'(%s)\.round\(\)' % atom, r'ieee_round(\1)', body)
        body = re.sub(r'(%s)\.is_infinite\(\)' % atom, r'ieee_is_infinite(\1)', body)
        body = re.sub(r'(%s)\.is_nan\(\)' % atom, r'ieee_is_nan(\1)', body)
        body = re.sub(r'(%s)\s+as\s+i64\b' % atom, r'ieee_to_i64(\1)', body)
        body = re.sub(r'(%s)\s+as\s+i32\b' % atom, r'ieee_to_i32(\1)', body)
        body = re.sub(r'(%s)\s*==\s*0\.0\b' % atom, r'ieee_is_zero(\1)', body)
        body = re.sub(r'(?<=[(,=])\s*-\s*(%s)' % atom, r'ieee_neg(\1)', body)
        for m in re.finditer(r'\blet\s+(?:mut\s+)?(\w+)\s*=\s*(%s)\s*;' % atom, body):
            if not re.match(r'ieee_(to_i64|to_i32|is_\w+)\(', m.group(2)):      # those return integers / booleans
                floats.add(m.group(1))
        if body == before:
            break
    if body != orig:
        rewrites.add('ieee-ops-named')
    return body


def filter_derive(attr, rewrites):
    m = re.match(r'#\[\s*derive\s*\((.*)\)\s*\]$', attr, re.S)
    if not m:
        return None
    names = [x.strip() for x in m.group(1).split(',') if x.strip()]
    keep = [x for x in names if x in KEEP_DERIVES]
    if set(keep) != set(names):
        rewrites.add('derive-filtered:' + ','.join(x for x in names if x not in keep))
    if not keep:
        return ''
    return '#[derive(%s)]' % ', '.join(keep)


def emit_attrs(attrs, rewrites):
    out = []
    for a in attrs:
        d = filter_derive(a, rewrites)
        if d is not None:
            if d:
                out.append(d)
            continue
        rewrites.add('attr-dropped')
    return out


def has_call(expr):
    e = re.sub(r'\bas\s+[A-Za-z0-9_]+', '', expr)
    return re.search(r'[A-Za-z_][A-Za-z0-9_]*\s*\(', e) is not None


def param_names_of_newtypes(params, self_is_newtype, extra=()):
    names = []
    for p in rustsrc.split_params(params):
        p = p.strip()
        if re.match(r'^&\s*(\'\w+\s+)?mut\s', p) or re.search(r':\s*&\s*(\'\w+\s+)?mut\s', p):
            continue   # use_type_invariant does not take &mut places
        if re.match(r'^(&\s*(\'\w+\s+)?)?(mut\s+)?self$', p):
            if self_is_newtype:
                names.append('self')
            continue
        m = re.match(r'^(?:mut\s+)?([A-Za-z_][A-Za-z0-9_]*)\s*:\s*(.+)$', p, re.S)
        if not m:
            continue
        ty = m.group(2).strip()
        ty = re.sub(r'^&\s*(\'\w+\s+)?(mut\s+)?', '', ty)
        if ty in NEWTYPES or ty in extra:
            names.append(m.group(1))
    return names


# --------------------------------------------------------------------------- emit
class Unit:
    def __init__(self):
        self.lines = []
        self.items = []     # manifest
        self.problems = []

    def lineno(self):
        return len(self.lines) + 1

    def add(self, text):
        for l in text.split('\n'):
            self.lines.append(l)

    def text(self):
        return '\n'.join(self.lines) + '\n'


def impl_target(header):
    """type the impl is for"""
    m = re.match(r'impl(?:<[^>]*>)?\s+(?:(.+?)\s+for\s+)?(.+)$', header)
    trait, ty = m.group(1), m.group(2)
    return trait, ty.strip()


def spec_impl_for(trait, ty):
    """rewrite 9: vstd insists on a ...SpecImpl next to an impl of these std traits; obeys_* = false,
    so nothing is assumed about the impl - callers only see the `ensures` of the method."""
    if trait is None:
        return None
    m = re.match(r'(From|TryFrom|PartialEq|PartialOrd)<(.+)>$', trait)
    if m:
        t, x = m.group(1), m.group(2).strip()
        if t == 'From':
            return ('impl vstd::std_specs::convert::FromSpecImpl<%s> for %s {\n    open spec fn obeys_from_spec() -> bool { false }\n'
                    '    open spec fn from_spec(v: %s) -> %s { arbitrary() }\n}' % (x, ty, x, ty))
        if t == 'TryFrom':
            return ('impl vstd::std_specs::convert::TryFromSpecImpl<%s> for %s {\n    open spec fn obeys_try_from_spec() -> bool { false }\n'
                    '    open spec fn try_from_spec(v: %s) -> core::result::Result<Self, Self::Error> { arbitrary() }\n}' % (x, ty, x))
        if t == 'PartialEq':
            return ('impl vstd::std_specs::cmp::PartialEqSpecImpl<%s> for %s {\n    open spec fn obeys_eq_spec() -> bool { false }\n'
                    '    open spec fn eq_spec(&self, other: &%s) -> bool { arbitrary() }\n}' % (x, ty, x))
        if t == 'PartialOrd':
            return ('impl vstd::std_specs::cmp::PartialOrdSpecImpl<%s> for %s {\n    open spec fn obeys_partial_cmp_spec() -> bool { false }\n'
                    '    open spec fn partial_cmp_spec(&self, other: &%s) -> Option<Ordering> { arbitrary() }\n}' % (x, ty, x))
    if trait == 'PartialOrd':      # hand-written impl with Rhs = Self (normally derived)
        return ('impl vstd::std_specs::cmp::PartialOrdSpecImpl<%s> for %s {\n    open spec fn obeys_partial_cmp_spec() -> bool { false }\n'
                '    open spec fn partial_cmp_spec(&self, other: &%s) -> Option<Ordering> { arbitrary() }\n}' % (ty, ty, ty))
    if trait == 'PartialEq':
        return ('impl vstd::std_specs::cmp::PartialEqSpecImpl<%s> for %s {\n    open spec fn obeys_eq_spec() -> bool { false }\n'
                '    open spec fn eq_spec(&self, other: &%s) -> bool { arbitrary() }\n}' % (ty, ty, ty))
    if trait == 'Ord':
        return ('impl vstd::std_specs::cmp::OrdSpecImpl for %s {\n    open spec fn obeys_cmp_spec() -> bool { false }\n'
                '    open spec fn cmp_spec(&self, other: &%s) -> Ordering { arbitrary() }\n}' % (ty, ty))
    if trait == 'Neg':
        return ('impl vstd::std_specs::ops::NegSpecImpl for %s {\n    open spec fn obeys_neg_spec() -> bool { false }\n'
                '    open spec fn neg_req(self) -> bool { true }\n    open spec fn neg_spec(self) -> %s { arbitrary() }\n}' % (ty, ty))
    return None


def emit_fn(unit, mod, scope_key, it, entries, indent, in_trait_impl, self_is_newtype, strict):
    f = it.fn
    key = norm_key((scope_key + ' / ' if scope_key else '') + 'fn ' + f.name)
    full_key = mod + ' :: ' + key
    ent = entries.get(key)
    rec = {'item': full_key, 'sha256': it.sha(), 'rewrites': [], 'kind': 'fn'}
    if ent is None:
        if strict:
            unit.problems.append('no contract-store entry for %s (new operation without a contract)' % full_key)
        rec['mode'] = 'not-extracted'
        unit.items.append(rec)
        return
    ent.used = True
    if ent.mode in ('skip', 'drop'):
        rec['mode'] = 'not-extracted'
        rec['reason'] = ent.note
        unit.items.append(rec)
        return
    demoted = False
    if full_key in DEMOTE and ent.mode == 'verify':
        # the body on this tree is outside the Verus subset: keep the contract for the callers, do not verify the body
        import copy
        ent = copy.copy(ent)
        ent.mode = 'trusted'
        demoted = True
    rewrites = set()
    attrs = emit_attrs(it.attrs, rewrites)
    sig_quals = [q for q in f.quals if q in ('const', 'unsafe')]
    head = indent
    if ent.mode in ('external', 'trusted'):
        unit.add(indent + '#[verifier::external_body]')
        rewrites.add('external_body')
    if not in_trait_impl:
        head += 'pub '
        if f.vis != 'pub':
            rewrites.add('visibility->pub')
    head += ''.join(q + ' ' for q in sig_quals)
    head += 'fn %s%s(%s)' % (f.name, f.generics, ' '.join(f.params.split()))
    if f.ret:
        head += ' -> (%s: %s)' % (ent.ret, ' '.join(f.ret.split()))
        rewrites.add('named-return')
    start = unit.lineno()
    for a in attrs:
        unit.add(indent + a)
    unit.add(head)
    if ent.requires.strip():
        unit.add(indent + '    requires')
        unit.add(reindent(ent.requires, indent + '        '))
    if ent.ensures.strip():
        unit.add(indent + '    ensures')
        unit.add(reindent(ent.ensures, indent + '        '))
    unit.add(indent + '{')
    ghosts = []
    if ent.mode == 'verify':
        for n in param_names_of_newtypes(f.params, self_is_newtype):
            ghosts.append('use_type_invariant(%s);' % n)
    float_params = [pn.strip().split(':')[0].strip() for pn in rustsrc.split_params(f.params) if re.search(r':\s*f64\s*$', pn.strip())]
    body = rewrite_body(f.body, rewrites, float_params)
    if ent.mode == 'verify' and (ghosts or ent.proof.strip()):
        unit.add(indent + '    proof {')
        for g in ghosts:
            unit.add(indent + '        ' + g)
        if ent.proof.strip():
            unit.add(reindent(ent.proof, indent + '        '))
        unit.add(indent + '    }')
        rewrites.add('ghost-prelude')
    body_start = unit.lineno()
    unit.add(body.strip('\n'))
    unit.add(indent + '}')
    rec.update({'mode': 'demoted (body not ingestible by Verus on this tree)' if demoted else
                        {'verify': 'verified', 'external': 'external_body (contract discharged by Kani)',
                         'trusted': 'external_body (trusted)'}[ent.mode],
                'lines': [start, unit.lineno() - 1], 'body_line': body_start,
                'rewrites': sorted(rewrites), 'fn': f.name, 'module': mod, 'scope': scope_key,
                'contract_origin': ent.origin, 'note': ent.note,
                'has_requires': bool(ent.requires.strip()), 'has_ensures': bool(ent.ensures.strip())})
    unit.items.append(rec)


def reindent(text, indent):
    lines = text.rstrip('\n').split('\n')
    # strip common leading whitespace
    nonblank = [l for l in lines if l.strip()]
    common = min((len(l) - len(l.lstrip()) for l in nonblank), default=0)
    return '\n'.join((indent + l[common:]) if l.strip() else '' for l in lines)


def emit_const(unit, mod, scope_key, it, entries, indent, strict):
    key = norm_key((scope_key + ' / ' if scope_key else '') + it.kind + ' ' + it.name)
    full_key = mod + ' :: ' + key
    ent = entries.get(key)
    rec = {'item': full_key, 'sha256': it.sha(), 'kind': it.kind, 'rewrites': []}
    rewrites = set()
    m = re.match(r'(?:pub\s*(?:\([^)]*\))?\s*)?(const|static)\s+([A-Za-z_][A-Za-z0-9_]*)\s*:\s*(.*?)\s*=\s*(.*);\s*$', it.text, re.S)
    if not m:
        raise ExtractError('cannot split const %s' % full_key)
    _, name, ty, init = m.groups()
    if ent is not None:
        ent.used = True
        if ent.mode in ('skip', 'drop'):
            rec['mode'] = 'not-extracted'
            rec['reason'] = ent.note
            unit.items.append(rec)
            return
        if ent.mode == 'external':
            start = unit.lineno()
            unit.add(indent + '#[verifier::external]')
            unit.add(indent + 'pub ' + re.sub(r'^pub\s*(\([^)]*\))?\s*', '', it.text))
            rec.update({'mode': 'external (not visible to Verus)', 'lines': [start, unit.lineno() - 1], 'rewrites': ['verifier::external']})
            unit.items.append(rec)
            return
    start = unit.lineno()
    if has_call(init) or (ent is not None and ent.ensures.strip()):
        if ent is None or not ent.ensures.strip():
            if strict:
                unit.problems.append('const %s is computed by a call and has no `ensures` in the contract store' % full_key)
            rec['mode'] = 'not-extracted'
            unit.items.append(rec)
            return
        rewrites.add('const->exec const ensures')
        unit.add(indent + 'pub exec const %s: %s' % (name, ' '.join(ty.split())))
        unit.add(indent + '    ensures')
        unit.add(reindent(ent.ensures, indent + '        '))
        unit.add(indent + '{')
        if ent.proof.strip():
            unit.add(indent + '    proof {')
            unit.add(reindent(ent.proof, indent + '        '))
            unit.add(indent + '    }')
        unit.add(indent + '    ' + init.strip())
        unit.add(indent + '}')
        rec['mode'] = 'verified'
    else:
        unit.add(indent + 'pub const %s: %s = %s;' % (name, ' '.join(ty.split()), init.strip()))
        rec['mode'] = 'copied'
    rec.update({'lines': [start, unit.lineno() - 1], 'rewrites': sorted(rewrites), 'module': mod, 'fn': name, 'scope': scope_key})
    unit.items.append(rec)


def emit_struct_enum(unit, mod, it, entries, indent):
    key = norm_key(it.kind + ' ' + it.name)
    ent = entries.get(key)
    full_key = mod + ' :: ' + key
    rec = {'item': full_key, 'sha256': it.sha(), 'kind': it.kind, 'rewrites': []}
    if ent is not None:
        ent.used = True
        if ent.mode in ('skip', 'drop'):
            rec['mode'] = 'not-extracted'
            rec['reason'] = ent.note
            unit.items.append(rec)
            return
    rewrites = set()
    attrs = emit_attrs(it.attrs, rewrites)
    text = re.sub(r'^pub\s*(\([^)]*\))?\s*', '', it.text)
    if it.kind == 'enum' and it.name == 'Error':
        # payload-carrying variants are never built by extracted code: dropped, recorded
        head, inner = text.split('{', 1)
        inner = inner.rsplit('}', 1)[0]
        variants = []
        for v in rustsrc.split_params(re.sub(r'#\[[^\]]*\]', '', inner)):
            if '(' in v or '{' in v:
                rewrites.add('payload-variant-dropped:' + v.split('(')[0].strip())
                continue
            variants.append(v.strip())
        text = head + '{ ' + ', '.join(variants) + ' }'
    start = unit.lineno()
    for a in attrs:
        unit.add(indent + a)
    unit.add(indent + 'pub ' + text)
    rec.update({'mode': 'copied', 'lines': [start, unit.lineno() - 1], 'rewrites': sorted(rewrites)})
    unit.items.append(rec)


def emit_module(unit, mod, path, strict, entries, extras):
    items = rustsrc.parse_file(path)
    unit.add('pub mod %s {' % mod)
    unit.add('\n'.join(l for l in MODULE_PRELUDE.rstrip('\n').split('\n') if ('crate::%s::*' % mod) not in l))
    if MODULE_IMPORTS[mod]:
        unit.add(MODULE_IMPORTS[mod].rstrip('\n'))
    indent = '    '
    for it in items:
        if it.kind == 'use':
            continue   # rewrite 1: replaced by the fixed prelude
        if it.kind == 'macro' or it.kind == 'mod':
            continue
        if it.kind in ('const', 'static'):
            if not strict and norm_key(it.kind + ' ' + it.name) not in entries:
                unit.items.append({'item': mod + ' :: ' + it.kind + ' ' + it.name, 'sha256': it.sha(), 'kind': it.kind, 'mode': 'not-extracted'})
                continue
            emit_const(unit, mod, '', it, entries, indent, strict)
        elif it.kind == 'type':
            key = norm_key('type ' + it.name)
            ent = entries.get(key)
            if ent is None and not strict:
                continue
            if ent is not None:
                ent.used = True
            if ent is not None and ent.mode == 'external':
                unit.add(indent + '#[verifier::external]')
                unit.add(indent + 'pub ' + re.sub(r'^pub\s*(\([^)]*\))?\s*', '', it.text))
                unit.items.append({'item': mod + ' :: ' + key, 'sha256': it.sha(), 'kind': 'type', 'mode': 'external (not visible to Verus)'})
            elif ent is not None and ent.mode in ('skip', 'drop'):
                unit.items.append({'item': mod + ' :: ' + key, 'sha256': it.sha(), 'kind': 'type', 'mode': 'not-extracted'})
            else:
                unit.add(indent + 'pub ' + re.sub(r'^pub\s*(\([^)]*\))?\s*', '', it.text))
                unit.items.append({'item': mod + ' :: ' + key, 'sha256': it.sha(), 'kind': 'type', 'mode': 'copied'})
        elif it.kind in ('struct', 'enum'):
            if not strict and norm_key(it.kind + ' ' + it.name) not in entries:
                unit.items.append({'item': mod + ' :: ' + it.kind + ' ' + it.name, 'sha256': it.sha(), 'kind': it.kind, 'mode': 'not-extracted'})
                continue
            emit_struct_enum(unit, mod, it, entries, indent)
        elif it.kind == 'trait':
            if not strict:
                unit.items.append({'item': mod + ' :: ' + it.header, 'sha256': it.sha(), 'kind': 'trait', 'mode': 'not-extracted'})
                continue
            unit.problems.append('unexpected trait in %s' % mod)
        elif it.kind == 'fn':
            emit_fn(unit, mod, '', it, entries, indent, False, False, strict)
        elif it.kind == 'impl':
            trait, ty = impl_target(it.header)
            hkey = norm_key(it.header)
            ent = entries.get(hkey)
            if ent is not None and ent.mode in ('skip', 'drop'):
                ent.used = True
                unit.items.append({'item': mod + ' :: ' + hkey, 'sha256': it.sha(), 'kind': 'impl', 'mode': 'not-extracted', 'reason': ent.note})
                continue
            if ent is not None and ent.mode == 'external':
                ent.used = True
                start = unit.lineno()
                unit.add(indent + '#[verifier::external]')
                unit.add(indent + it.text)
                unit.items.append({'item': mod + ' :: ' + hkey, 'sha256': it.sha(), 'kind': 'impl', 'mode': 'external (not visible to Verus)',
                                   'lines': [start, unit.lineno() - 1], 'reason': ent.note, 'rewrites': ['verifier::external']})
                continue
            fn_keys = [norm_key(hkey + ' / ' + s.kind + ' ' + s.name) for s in it.items if s.kind in ('fn', 'const')]
            if not strict and not any(k in entries for k in fn_keys):
                unit.items.append({'item': mod + ' :: ' + hkey, 'sha256': it.sha(), 'kind': 'impl', 'mode': 'not-extracted'})
                continue
            self_nt = ty in NEWTYPES
            ghost = spec_impl_for(trait, ty)
            if ghost:
                gstart = unit.lineno()
                unit.add(reindent(ghost, indent))
                unit.items.append({'item': mod + ' :: ghost SpecImpl for ' + hkey, 'kind': 'ghost', 'mode': 'ghost (vstd SpecImpl, obeys = false)',
                                   'lines': [gstart, unit.lineno() - 1]})
            # emit only if at least one member is emitted
            sub = Unit()
            sub.lines = []
            base = unit.lineno()
            tmp = Unit()
            tmp.lines = unit.lines  # share
            unit.add(indent + it.header + ' {')
            n_before = len(unit.items)
            for s in it.items:
                if s.kind == 'fn':
                    emit_fn(unit, mod, hkey, s, entries, indent + '    ', trait is not None, self_nt, strict)
                elif s.kind == 'const':
                    if not strict and norm_key(hkey + ' / const ' + s.name) not in entries:
                        continue
                    emit_const(unit, mod, hkey, s, entries, indent + '    ', strict)
                elif s.kind == 'type':
                    unit.add(indent + '    ' + s.text)
            emitted = [r for r in unit.items[n_before:] if r.get('lines')]
            if not emitted:
                # nothing inside: remove the empty impl block
                del unit.lines[base - 1:]
            else:
                unit.add(indent + '}')
        else:
            unit.problems.append('unhandled item kind %s in %s' % (it.kind, mod))
    for ex in extras:
        ex.used = True
        start = unit.lineno()
        unit.add(reindent(ex.extra, indent))
        unit.items.append({'item': mod + ' :: ghost ' + ex.key, 'kind': 'ghost', 'mode': 'ghost (spec/proof text from the contract store)',
                           'lines': [start, unit.lineno() - 1], 'contract_origin': ex.origin})
        add_ghost_fn_items(unit, mod, reindent(ex.extra, indent), start, ex.origin)
    unit.add('}')
    for k, e in entries.items():
        if not e.used and not getattr(e, 'optional', False):
            unit.problems.append('contract-store entry %s (%s) matches no item in %s: anchor lost' % (k, e.origin, os.path.basename(path)))


def emit_traits(unit, repo, entries):
    """rewrite 8: crate-local traits copied from lib.rs; methods listed as skipped are dropped"""
    items = rustsrc.parse_file(os.path.join(repo, 'src', 'lib.rs'))
    for it in items:
        if it.kind != 'trait':
            continue
        subs = rustsrc.split_items(it.inner)
        start = unit.lineno()
        unit.add('pub ' + it.header + ' {')
        dropped = []
        for s in subs:
            key = norm_key(it.header.split(':')[0].strip() + ' / fn ' + s.name)
            ent = entries.get(key)
            if ent is not None and ent.mode == 'skip':
                ent.used = True
                dropped.append(s.name)
                continue
            unit.add('    ' + ' '.join(s.text.split()))
        unit.add('}')
        unit.items.append({'item': 'lib :: ' + it.header, 'sha256': it.sha(), 'kind': 'trait', 'mode': 'copied',
                           'lines': [start, unit.lineno() - 1], 'rewrites': ['trait-method-dropped:' + d for d in dropped]})


def add_ghost_fn_items(unit, mod, text, start, origin):
    """one manifest item per spec/proof fn of a ghost text block (line range = up to the next fn)"""
    lines = text.split('\n')
    starts = []
    for i, l in enumerate(lines):
        m = re.match(r'\s*pub\s+(?:open\s+|closed\s+)?(spec|proof)\s+fn\s+([A-Za-z_0-9]+)', l)
        if m:
            starts.append((i, m.group(1), m.group(2)))
    for k, (i, kind, name) in enumerate(starts):
        end = (starts[k + 1][0] - 1) if k + 1 < len(starts) else len(lines) - 1
        unit.items.append({'item': '%s :: %s fn %s' % (mod, kind, name), 'kind': 'lemma' if kind == 'proof' else 'spec',
                           'mode': 'verified' if kind == 'proof' else 'ghost (spec definition)', 'fn': name, 'module': mod, 'scope': '',
                           'lines': [start + i, start + end], 'contract_origin': origin})


DEMOTE = set()


def build_unit(repo, contracts=None, extra_files=(), demote=()):
    global DEMOTE
    DEMOTE = set(demote)
    contracts = contracts or os.path.join(VERIF, 'contracts')
    unit = Unit()
    unit.add('#![allow(unused_imports, dead_code, unused_variables, unused_mut, unused_unsafe, non_snake_case, unused_parens)]')
    unit.add('use vstd::prelude::*;')
    unit.add('verus! {')
    # spec library
    spec_dir = os.path.join(contracts, 'spec')
    unit.add('pub mod spec {')
    unit.add('    #[allow(unused_imports)] use vstd::prelude::*;')
    unit.add('    #[allow(unused_imports)] use vstd::arithmetic::div_mod::*;')
    for fn in sorted(os.listdir(spec_dir)):
        if fn.endswith('.rs'):
            start = unit.lineno()
            text = open(os.path.join(spec_dir, fn), encoding='utf-8').read().rstrip('\n')
            unit.add(text)
            add_ghost_fn_items(unit, 'spec', text, start, fn)
    unit.add('}')
    unit.add('#[allow(unused_imports)] pub use crate::date::{Date, Month, WeekDay};')
    unit.add('#[allow(unused_imports)] pub use crate::error::Error;')
    lib_entries, lib_extras = load_store(os.path.join(contracts, 'verus', 'lib.vc'))
    emit_traits(unit, repo, lib_entries)
    for ex in lib_extras:
        start = unit.lineno()
        unit.add(ex.extra.rstrip('\n'))
        unit.items.append({'item': 'lib :: ghost ' + ex.key, 'kind': 'ghost', 'mode': 'ghost', 'lines': [start, unit.lineno() - 1]})
    for mod, fn, strict in MODULES:
        path = os.path.join(contracts, '..', fn[1:]) if fn.startswith('@') else os.path.join(repo, 'src', fn)
        entries, extras = load_store(os.path.join(contracts, 'verus', mod + '.vc'))
        emit_module(unit, mod, path, strict, entries, extras)
    # laws: lemma-like exec/proof functions over the contracts
    laws = os.path.join(contracts, 'verus', 'laws.rs')
    if os.path.exists(laws):
        unit.add('pub mod laws {')
        unit.add(MODULE_PRELUDE.rstrip('\n'))
        unit.add('    #[allow(unused_imports)] use crate::date::{Date, Month, WeekDay, weekday_num};\n    #[allow(unused_imports)] use crate::time::Time;\n'
                 '    #[allow(unused_imports)] use crate::timestamp::Timestamp;\n    #[allow(unused_imports)] use crate::interval::{IntervalDT, IntervalYM, Sign, sign_num};\n'
                 '    #[allow(unused_imports)] use crate::oracle::Date as OracleDate;')
        for it in rustsrc.split_items(rustsrc.strip_comments(open(laws, encoding='utf-8').read())):
            if it.kind != 'fn':
                unit.problems.append('laws.rs: only fn items are allowed, found %s' % it.kind)
                continue
            f = it.fn
            start = unit.lineno()
            head = it.text[:it.text.index('{')] if f.body is not None else it.text
            # header text up to the body: find the body by bracket matching from the end
            body_open = len(it.text) - len(f.body) - 2
            unit.add('    ' + it.text[:body_open].rstrip())
            unit.add('    {')
            ghosts = ['use_type_invariant(%s);' % n for n in param_names_of_newtypes(f.params, False, extra=('OracleDate',))]
            if ghosts:
                unit.add('        proof { ' + ' '.join(ghosts) + ' }')
            unit.add(f.body.strip('\n'))
            unit.add('    }')
            unit.items.append({'item': 'laws :: fn ' + f.name, 'kind': 'law', 'mode': 'verified', 'fn': f.name, 'module': 'laws', 'scope': '',
                               'lines': [start, unit.lineno() - 1], 'contract_origin': 'laws.rs'})
        unit.add('}')
    for p in extra_files:
        unit.add(open(p, encoding='utf-8').read().rstrip('\n'))
    unit.add('} // verus!')
    unit.add('fn main() {}')
    return unit


def main():
    import argparse
    ap = argparse.ArgumentParser()
    ap.add_argument('--repo', default='/repo')
    ap.add_argument('--out', required=True)
    ap.add_argument('--manifest')
    a = ap.parse_args()
    unit = build_unit(a.repo)
    open(a.out, 'w', encoding='utf-8').write(unit.text())
    if a.manifest:
        json.dump({'items': unit.items, 'problems': unit.problems}, open(a.manifest, 'w'), indent=1)
    for p in unit.problems:
        print('EXTRACT-PROBLEM:', p)
    sys.exit(2 if unit.problems else 0)


if __name__ == '__main__':
    main()
