#!/usr/bin/env python3
"""Re-execute a Kani counterexample NATIVELY on the real code.

The harness modules are compiled into a scratch copy of the tree under check with the `#[kani::…]` attributes
removed and `kani::any()` served from the recorded concrete values (contracts/kani/shim_kani.rs.txt).  Only harnesses
without value-generating stubs can be replayed faithfully (the others are reported as such): a stub that only
replaces a function by its contract (date2julian -> twin) is harmless because the real function satisfies it.
"""
import json, os, re, shutil, subprocess, sys
HERE = os.path.dirname(os.path.abspath(__file__))
VERIF = os.path.dirname(HERE)
KANI_DIR = os.path.join(VERIF, 'contracts', 'kani')
TARGET = os.path.join(VERIF, 'work', 'kreplay_target')

# stubs whose replacement draws fresh nondeterministic values or records arguments: native execution would diverge
VALUE_STUBS = ('_oracle', '_probe', 'extract_by_contract', 'stub_now', 'lazy_force_never', 'ts_add_days_any', 'mk_')


def harness_source(name):
    for fn in ('kverif.rs', 'kformat.rs'):
        text = open(os.path.join(KANI_DIR, fn)).read()
        m = re.search(r'((?:\s*#\[kani::[^\n]*\]\n)+)\s*fn %s\(\)' % re.escape(name), text)
        if m:
            return fn, m.group(1)
        m = re.search(r'(\w+_harness)!\(%s,' % re.escape(name), text)
        if m:
            mac = re.search(r'macro_rules! %s \{(.*?)\n\}' % m.group(1), text, re.S)
            return fn, mac.group(1) if mac else ''
    return None, ''


def replayable(name):
    fn, attrs = harness_source(name)
    if fn is None:
        return False, 'harness not found'
    stubs = re.findall(r'kani::stub\(([^,]+),\s*([^)]+)\)', attrs)
    bad = [b.strip() for a, b in stubs if any(v in b for v in VALUE_STUBS)]
    if bad:
        return False, 'uses value-generating stubs: ' + ', '.join(bad)
    return True, ''


def strip_kani_attrs(text):
    text = re.sub(r'^[ \t]*#\[kani::[^\n]*\]\n', '', text, flags=re.M)
    return text


def build_and_run(repo, name, values, timeout=900):
    ok, why = replayable(name)
    if not ok:
        return {'replayed': False, 'reason': why}
    work = os.path.join(VERIF, 'work', 'kreplay_crate')
    shutil.rmtree(work, ignore_errors=True)
    subprocess.check_call(['rsync', '-a', '--exclude', 'target', '--exclude', '.git', repo.rstrip('/') + '/', work + '/'])
    src = os.path.join(work, 'src')
    shutil.copy(os.path.join(KANI_DIR, 'shim_kani.rs.txt'), os.path.join(src, 'kani.rs'))
    shutil.copy(os.path.join(KANI_DIR, 'twins.rs'), os.path.join(src, 'twins.rs'))
    disp = {}
    for fn in ('kverif.rs', 'kformat.rs'):
        text = strip_kani_attrs(open(os.path.join(KANI_DIR, fn)).read())
        text = text.replace('#![allow(', '#![allow(unused_unsafe, static_mut_refs, ', 1)
        names = re.findall(r'^fn (\w+)\(\) \{', text, flags=re.M)
        arms = '\n'.join('        "%s" => { %s(); true }' % (n, n) for n in names)
        text = re.sub(r'^(use [^\n]*;\n)', r'\1use crate::kani;\n', text, count=1, flags=re.M)
        text += '\npub fn __verif_dispatch(name: &str) -> bool {\n    match name {\n%s\n        _ => false,\n    }\n}\n' % arms
        open(os.path.join(src, fn), 'w').write(text)
    lib = open(os.path.join(src, 'lib.rs')).read()
    lib += '''
#[cfg(verif_replay)]
pub mod kani;
#[cfg(verif_replay)]
mod kverif;
#[cfg(verif_replay)]
#[test]
fn verif_replay_main() {
    let name = std::env::var("VERIF_REPLAY_HARNESS").unwrap();
    let vals: Vec<Vec<u8>> = std::env::var("VERIF_REPLAY_VALUES").unwrap().split(';').filter(|s| !s.is_empty())
        .map(|s| s.split(',').filter(|x| !x.is_empty()).map(|x| x.parse::<u8>().unwrap()).collect()).collect();
    kani::load(vals);
    let found = kverif::__verif_dispatch(&name) || format::__verif_dispatch_kformat(&name);
    assert!(found, "VERIF-REPLAY: unknown harness");
    println!("VERIF-REPLAY: harness ran to the end without a failed assertion");
}
'''
    open(os.path.join(src, 'lib.rs'), 'w').write('#![cfg_attr(verif_replay, recursion_limit = "1024")]\n' + lib)
    with open(os.path.join(src, 'format.rs'), 'a') as f:
        f.write('\n#[cfg(verif_replay)]\n#[path = "kformat.rs"]\nmod kformat;\n#[cfg(verif_replay)]\npub fn __verif_dispatch_kformat(name: &str) -> bool { kformat::__verif_dispatch(name) }\n')
    env = dict(os.environ, CARGO_NET_OFFLINE='true', CARGO_TARGET_DIR=TARGET, RUSTFLAGS='--cfg verif_replay -A warnings',
               VERIF_REPLAY_HARNESS=name, VERIF_REPLAY_VALUES=';'.join(','.join(str(b) for b in v) for v in values))
    p = subprocess.run(['cargo', 'test', '--offline', '--features', 'serde,oracle', '--lib', 'verif_replay_main', '--', '--nocapture', '--test-threads', '1'],
                       cwd=work, capture_output=True, text=True, env=env, timeout=timeout)
    out = p.stdout + p.stderr
    shutil.rmtree(work, ignore_errors=True)
    if 'error[' in out or 'error: could not compile' in out:
        return {'replayed': False, 'reason': 'native build of the harness module failed: ' + '\n'.join(l for l in out.split('\n') if l.startswith('error'))[:1500]}
    m = re.search(r"panicked at ([^\n]*)\n([^\n]*)", out)
    if 'harness ran to the end without a failed assertion' in out:
        return {'replayed': True, 'reproduced': False, 'output': out[-800:]}
    if m and 'VERIF-REPLAY' in m.group(2):
        return {'replayed': False, 'reason': m.group(2)}
    if m:
        return {'replayed': True, 'reproduced': True, 'panic_at': m.group(1), 'message': m.group(2)[:500]}
    return {'replayed': False, 'reason': 'no verdict: ' + out[-800:]}


if __name__ == '__main__':
    name = sys.argv[1]
    vals = json.loads(sys.argv[2]) if len(sys.argv) > 2 else []
    print(json.dumps(build_and_run(os.environ.get('VERIF_REPO', '/repo'), name, vals), indent=1))
