#!/usr/bin/env python3
"""Kani side: inject the harness modules into a scratch copy of /repo, run `cargo kani`, parse."""
import json
import os
import re
import shutil
import signal
import subprocess
import sys
import time

HERE = os.path.dirname(os.path.abspath(__file__))
VERIF = os.path.dirname(HERE)
sys.path.insert(0, os.path.join(VERIF, 'contracts', 'kani'))
import harnesses as HREG  # noqa: E402

KANI_DIR = os.path.join(VERIF, 'contracts', 'kani')
TARGET_DIR = os.environ.get('VERIF_KANI_TARGET', os.path.join(VERIF, 'work', 'kani_target'))
FEATURES = 'serde,oracle'


def harnesses_for(prop, tier):
    out = []
    for name, h in HREG.H.items():
        if prop not in h['props']:
            continue
        ht = h.get('tier', 'quick')
        if ht == 'stretch' and tier != 'stretch':
            continue
        if tier == 'quick' and ht != 'quick':
            continue
        if tier == 'quick' and h.get('quick_only_for') and prop not in h['quick_only_for']:
            continue   # expensive harness: in the quick tier it runs only under its home property
        if tier == 'thorough' and h.get('thorough_only_for') and prop not in h['thorough_only_for']:
            continue   # very expensive harness: run once, under its home property
        out.append(dict(h, name=name))
    return out


def qualified_names():
    """harness name -> fully qualified path inside the scratch crate (for --exact)"""
    import re as _re
    out = {}
    for fn, prefix in (('kverif.rs', 'kverif'), ('kformat.rs', 'format::kformat')):
        path = os.path.join(KANI_DIR, fn)
        if not os.path.exists(path):
            continue
        mod = []
        depth_mod = []
        text = open(path).read()
        cur_mod = None
        for line in text.split('\n'):
            m = _re.match(r'^mod (\w+) \{', line)
            if m:
                cur_mod = m.group(1)
            if line.startswith('}') and cur_mod:
                cur_mod = None
            m = _re.match(r'\s*(?:pub )?fn (\w+)\(', line)
            if m:
                out.setdefault(m.group(1), prefix + ('::' + cur_mod if cur_mod else '') + '::' + m.group(1))
            m = _re.match(r'\s*(?:token_harness|glue_harness|parse_harness|parse_glue_harness|write_u32_harness|parse_picture_harness|parse_ind_harness)!\((\w+),', line)
            if m:
                out.setdefault(m.group(1), prefix + '::' + m.group(1))
    return out


def make_scratch(repo, workdir):
    crate = os.path.join(workdir, 'crate')
    if os.path.exists(crate):
        shutil.rmtree(crate)
    os.makedirs(workdir, exist_ok=True)
    subprocess.check_call(['rsync', '-a', '--exclude', 'target', '--exclude', '.git', repo.rstrip('/') + '/', crate + '/'])
    src = os.path.join(crate, 'src')
    for fn in os.listdir(KANI_DIR):
        if fn.endswith('.rs'):
            shutil.copy(os.path.join(KANI_DIR, fn), os.path.join(src, fn))
    lib = open(os.path.join(src, 'lib.rs')).read()
    with open(os.path.join(src, 'lib.rs'), 'w') as f:
        # (stacked #[kani::stub] attributes inside macro_rules need a larger expansion limit)
        f.write('#![cfg_attr(kani, recursion_limit = "1024")]\n' + lib + '\n#[cfg(kani)]\nmod kverif;\n')
    if os.path.exists(os.path.join(KANI_DIR, 'kformat.rs')):
        with open(os.path.join(src, 'format.rs'), 'a') as f:
            f.write('\n#[cfg(kani)]\n#[path = "kformat.rs"]\nmod kformat;\n')
        if not insert_parse_hooks(os.path.join(src, 'format.rs')):
            # the inductive harnesses cannot be stated without their observation points: drop them (reported undecided)
            kf = open(os.path.join(src, 'kformat.rs')).read()
            kf = re.sub(r'// >>> parse_ind.*?// <<< parse_ind', '', kf, flags=re.S)
            open(os.path.join(src, 'kformat.rs'), 'w').write(kf)
            open(os.path.join(crate, '.parse_hooks_missing'), 'w').write('1')
    if os.path.exists(os.path.join(KANI_DIR, 'kserde.rs')):
        with open(os.path.join(src, 'serialize.rs'), 'a') as f:
            f.write('\n#[cfg(kani)]\n#[path = "kserde.rs"]\nmod kserde;\n')
    # crate-level feature gates some harness attributes need (loop contracts etc.) are not used
    return crate


HOOK_ARGS = ('&mut s, &mut dt, &mut is_year_set, &mut is_month_set, &mut is_day_set, &mut is_hour24_set, &mut is_min_set, '
             '&mut is_sec_set, &mut is_fraction_set, &mut dow, &mut doy')


def insert_parse_hooks(path):
    """Observation points for the inductive parse_internal harnesses (scratch copy only, cfg(kani)): one call at the head of
    the field loop's body and one right after the loop.  The calls pass every loop-carried local by &mut; the hooks are
    inert unless a parse_ind_* harness arms them.  Nothing of the function is removed or reordered.  If the loop is not
    found (the function was restructured) nothing is inserted and the parse_ind_* harnesses report undecided."""
    import rustsrc
    txt = open(path).read()
    stripped = rustsrc.strip_comments(txt)
    a = stripped.find('fn parse_internal<')
    if a < 0:
        return False
    m = re.compile(r'for\s+field\s+in\s+self\.fields\.iter\(\)\s*\{[ \t]*\n').search(stripped, a)
    if not m:
        return False
    # every loop-carried local the hooks are handed must be declared (let mut) between the function head and the loop
    head = stripped[a:m.start()]
    declared = set(re.findall(r'let\s+mut\s+(\w+)', head))
    wanted = set(re.findall(r'&mut (\w+)', HOOK_ARGS))
    if not wanted <= declared or (declared - wanted) - {'now', 'get_now'}:
        return False
    ob = stripped.rfind('{', m.start(), m.end())
    try:
        cb = rustsrc.match_bracket(stripped, ob)
    except rustsrc.ParseError:
        return False
    line_open = stripped.count('\n', 0, ob)
    line_close = stripped.count('\n', 0, cb)
    lines = txt.split('\n')
    if lines[line_close].strip() != '}':
        return False
    lines.insert(line_close + 1, '        #[cfg(kani)]\n        kformat::after_loop_hook::<T>(%s);' % HOOK_ARGS)
    lines.insert(line_open + 1, '            #[cfg(kani)]\n            kformat::loop_head_hook::<T>(%s);' % HOOK_ARGS)
    open(path, 'w').write('\n'.join(lines))
    return True


def parse_output(text, names):
    """per-harness status from `--output-format terse` with -j"""
    res = {n: {'status': 'undecided', 'reason': 'no result in output', 'detail': ''} for n in names}
    cur_by_thread = {}
    active = None          # harness whose result block we are in
    last_thread = None
    block = []
    single = None

    def short(n):
        return n.split('::')[-1]
    lines = text.split('\n')
    for ln in lines:
        m = re.match(r'(?:Thread (\d+): )?Checking harness ([\w:]+)\.\.\.', ln)
        if m:
            th = m.group(1) or 'main'
            cur_by_thread[th] = short(m.group(2))
            if m.group(1) is None:
                active = short(m.group(2))
                block = []
            continue
        m = re.match(r'Thread (\d+):\s*$', ln)
        if m:
            active = cur_by_thread.get(m.group(1))
            block = []
            continue
        if active is None:
            continue
        block.append(ln)
        if 'CBMC timed out' in ln and active in res and res[active]['status'] == 'undecided':
            res[active]['reason'] = 'timeout'
            res[active]['detail'] = ln.strip()
        if ln.startswith('VERIFICATION:- '):
            r = res.get(active)
            if r is not None:
                r['verdict_line'] = ln.strip()
                r['block'] = '\n'.join(block)
        m = re.match(r'Verification Time: ([0-9.]+)s', ln)
        if m and active in res:
            res[active]['time_s'] = float(m.group(1))
            blk = res[active].get('block', '')
            v = res[active].get('verdict_line', '')
            if 'SUCCESSFUL' in v:
                res[active]['status'] = 'discharged'
                res[active].pop('reason', None)
            elif 'FAILED' in v:
                if re.search(r'out of memory|unwinding assertion|timed out|CBMC failed|Unsupported|unsupported', blk, re.I) and not re.search(r'Failed Checks: (?!.*unwinding)', blk):
                    res[active]['status'] = 'undecided'
                    res[active]['reason'] = 'timeout' if re.search(r'timed out', blk, re.I) else 'tool-limit'
                else:
                    res[active]['status'] = 'refuted'
                    res[active]['failures'] = [{'kind': 'kani-check', 'message': x.strip()} for x in re.findall(r'Failed Checks: (.*)', blk)][:10]
                    # CBMC's "NaN on <operation>" check flags an IEEE operation whose result is NaN.  Producing a NaN is
                    # not a panic and not part of any property (the code classifies NaN results explicitly, and that
                    # classification is what the harness asserts): such checks are not obligations of ours.
                    real = [f for f in res[active]['failures'] if not re.match(r'NaN on (division|multiplication|addition|subtraction)', f['message'])]
                    if res[active]['failures'] and not real:
                        res[active]['status'] = 'discharged'
                        res[active]['note'] = 'only CBMC NaN-generation checks fired (not an obligation)'
                        res[active]['failures'] = []
                    else:
                        res[active]['failures'] = real
                    if any('unwinding assertion' in f['message'] for f in res[active]['failures']) and all(
                            'unwinding assertion' in f['message'] for f in res[active]['failures']):
                        res[active]['status'] = 'undecided'
                        res[active]['reason'] = 'unwinding bound too small'
                res[active]['detail'] = blk[-3000:]
            active = None
    return res


def run(repo, harnesses, workdir, tier, seed, jobs=None, concrete=True):
    names = [h['name'] for h in harnesses]
    out = {'harnesses': [], 'summary': {}, 'trusted': []}
    t0 = time.time()
    crate = make_scratch(repo, workdir)
    dropped = []
    if os.path.exists(os.path.join(crate, '.parse_hooks_missing')):
        dropped = [h for h in harnesses if h['name'].startswith('parse_ind_')]
        harnesses = [h for h in harnesses if not h['name'].startswith('parse_ind_')]
        names = [h['name'] for h in harnesses]
    for h in dropped:
        out['harnesses'].append({'name': h['name'], 'status': 'undecided', 'time_s': None, 'complete': h.get('complete', True), 'bound': h.get('bound'),
                                 'reason': 'lost anchor: the field loop of parse_internal (or its loop-carried locals) was not found, observation points not placed',
                                 'detail': '', 'failures': [],
                                 'sample': {'obligation': 'kani::' + h['name'], 'what': h.get('what', ''), 'backend': 'kani/cbmc', 'complete': h.get('complete', True), 'bound': h.get('bound')}})
    if not harnesses:
        shutil.rmtree(crate, ignore_errors=True)
        return out
    heavy = any(h.get('mem_heavy') for h in harnesses)
    jobs = jobs or (4 if heavy else 12)
    cmd = ['cargo', 'kani', '-Z', 'stubbing', '-Z', 'function-contracts', '--features', FEATURES, '--output-format', 'terse', '-j', str(jobs)]
    qn = qualified_names()
    cmd.append('--exact')
    for n in names:
        cmd += ['--harness', qn.get(n, n)]
    # no single obligation may run past the largest per-harness budget of the selection
    per_harness = max(h.get('timeout_s', 120) for h in harnesses)
    cmd += ['-Z', 'unstable-options', '--harness-timeout', '%ds' % per_harness]
    env = dict(os.environ, CARGO_NET_OFFLINE='true', CARGO_TARGET_DIR=TARGET_DIR)
    budget = max(300, int(sum(h.get('timeout_s', 120) for h in harnesses) / min(jobs, max(1, len(harnesses))) + max(h.get('timeout_s', 120) for h in harnesses)))
    log = os.path.join(workdir, 'kani.log')
    timed_out = False
    with open(log, 'w') as lf:
        p = subprocess.Popen(cmd, cwd=crate, stdout=lf, stderr=subprocess.STDOUT, env=env, preexec_fn=os.setsid)
        try:
            p.wait(timeout=budget)
        except subprocess.TimeoutExpired:
            timed_out = True
            os.killpg(os.getpgid(p.pid), signal.SIGKILL)
            p.wait()
    text = open(log, errors='replace').read()
    out['summary'] = {'cmd': 'CARGO_NET_OFFLINE=true ' + ' '.join(cmd[:12]) + ' --harness <%d harnesses>' % len(names), 'wall_s': round(time.time() - t0, 1),
                      'jobs': jobs, 'timed_out': timed_out, 'budget_s': budget}
    if 'Checking harness' not in text and not timed_out:
        errs = [l for l in text.split('\n') if l.startswith('error')]
        out['fatal'] = 'cargo kani did not reach verification: ' + '\n'.join(errs[:8]) + '\n' + text[-1500:]
        return out
    parsed = parse_output(text, names)
    for h in harnesses:
        r = parsed[h['name']]
        rec = {'name': h['name'], 'status': r['status'], 'time_s': r.get('time_s'), 'complete': h.get('complete', True), 'bound': h.get('bound'),
               'reason': r.get('reason'), 'detail': r.get('detail', ''), 'failures': r.get('failures', []),
               'sample': {'obligation': 'kani::' + h['name'], 'what': h.get('what', ''), 'backend': 'kani/cbmc', 'complete': h.get('complete', True), 'bound': h.get('bound')}}
        if r['status'] == 'undecided' and timed_out and not r.get('verdict_line'):
            rec['reason'] = 'timeout'
        if r['status'] == 'refuted' and concrete == 'replayable-only':
            # a counterexample made of stub choices cannot be re-executed natively: try the native search first and
            # fetch the verifier's values only if that finds nothing (check.py calls playback_only)
            import kreplay
            if not kreplay.replayable(h['name'])[0]:
                rec['playback_deferred'] = True
        if r['status'] == 'refuted' and concrete and not rec.get('playback_deferred'):
            rec['counterexample'] = concrete_playback(crate, h['name'], env, workdir)
            if rec['counterexample'] and rec['counterexample'].get('values'):
                # replay the verifier's counterexample natively on the real code (tree under check)
                try:
                    import kreplay
                    rec['counterexample']['native_replay'] = kreplay.build_and_run(repo, h['name'], [v['bytes'] for v in rec['counterexample']['values']])
                except Exception as e:   # never let the replay break the verdict
                    rec['counterexample']['native_replay'] = {'replayed': False, 'reason': 'replay tool error: %s' % e}
        out['harnesses'].append(rec)
        for a in h.get('assumes', []):
            out['trusted'].append('kani harness %s: %s' % (h['name'], a))
    out['trusted'].append('kani harnesses in format.rs: error-message construction (util::try_format, StrExt::try_to_string) replaced by an empty string - '
                          'message texts are outside every property; allocation-failure paths are not explored')
    shutil.rmtree(crate, ignore_errors=True)
    return out


def playback_only(repo, name, workdir):
    """the verifier's counterexample values for one refuted harness (fresh scratch copy)"""
    crate = make_scratch(repo, workdir)
    env = dict(os.environ, CARGO_NET_OFFLINE='true', CARGO_TARGET_DIR=TARGET_DIR)
    try:
        cx = concrete_playback(crate, name, env, workdir)
        if cx is not None:
            import kreplay
            cx['native_replay'] = {'replayed': False, 'reason': kreplay.replayable(name)[1]}
        return cx
    finally:
        shutil.rmtree(crate, ignore_errors=True)


def concrete_playback(crate, name, env, workdir):
    cmd = ['cargo', 'kani', '-Z', 'stubbing', '-Z', 'function-contracts', '-Z', 'concrete-playback', '--concrete-playback=print',
           '--features', FEATURES, '--exact', '--harness', qualified_names().get(name, name)]
    try:
        p = subprocess.run(cmd, cwd=crate, capture_output=True, text=True, env=env, timeout=1800)
    except subprocess.TimeoutExpired:
        return None
    txt = p.stdout
    m = re.search(r'Concrete playback unit test for `[^`]*`:\s*```\s*(.*?)```', txt, re.S)
    if not m:
        return None
    test = m.group(1)
    vals = []
    for vm in re.finditer(r'//\s*(.+)\n\s*vec!\[([0-9,\s]*)\]', test):
        by = [int(x) for x in vm.group(2).replace(' ', '').split(',') if x]
        vals.append({'comment': vm.group(1).strip(), 'bytes': by, 'le_int': int.from_bytes(bytes(by), 'little') if by else None})
    return {'playback_test': test[:4000], 'values': vals}


def setup():
    """warm the dependency build so that the first check does not pay for it"""
    os.makedirs(TARGET_DIR, exist_ok=True)
    return 0


if __name__ == '__main__':
    prop = sys.argv[1]
    tier = sys.argv[2] if len(sys.argv) > 2 else 'quick'
    hs = harnesses_for(prop, tier)
    r = run(os.environ.get('VERIF_REPO', '/repo'), hs, '/var/tmp/kanirun_' + prop, tier, 0)
    for h in r['harnesses']:
        print(h['name'], h['status'], h.get('time_s'), h.get('reason'))
    print(r['summary'], r.get('fatal', ''))
