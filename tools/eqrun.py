#!/usr/bin/env python3
"""Apply each semantics-preserving edit (seeded_equivalent/eqN.diff) to a scratch copy of /repo, confirm the existing
suite still passes, and run the listed quick checks: exit 1 would be a false alarm."""
import glob, json, os, shutil, subprocess, sys
VERIF = os.path.dirname(os.path.dirname(os.path.abspath(__file__)))
out = {}
only = sys.argv[1:]
resf = os.path.join(VERIF, 'work', 'eqrun_results.json')
out = json.load(open(resf)) if os.path.exists(resf) else {}
for d in sorted(glob.glob(os.path.join(VERIF, 'seeded_equivalent', 'eq*.diff'))):
    name = os.path.basename(d)[:-5]
    if only and name not in only:
        continue
    meta = json.load(open(d[:-5] + '.json'))
    scratch = '/var/tmp/eqrun_%s' % name
    shutil.rmtree(scratch, ignore_errors=True)
    subprocess.check_call(['rsync', '-a', '--exclude', 'target', '--exclude', '.git', '/repo/', scratch + '/'])
    if subprocess.run(['patch', '-p1', '-s', '-i', d], cwd=scratch).returncode != 0:
        print(name, 'patch failed'); continue
    t = subprocess.run('cargo test --offline --all-features 2>&1 | grep "^test result"', shell=True, cwd=scratch, capture_output=True, text=True,
                       env=dict(os.environ, CARGO_TARGET_DIR='/var/tmp/eqrun_target'))
    suite_ok = 'FAILED' not in t.stdout and 'ok.' in t.stdout
    res = {'suite_ok': suite_ok, 'note': meta['note'], 'checks': {}}
    for p in meta['props']:
        env = dict(os.environ, VERIF_REPO=scratch, VERIF_EVIDENCE_DIR='/var/tmp/eqrun_evidence', VERIF_REPLAY_DIR='/var/tmp/eqrun_replays')
        r = subprocess.run([sys.executable, os.path.join(VERIF, 'tools', 'check.py'), p, '--tier', 'quick'], cwd=VERIF, capture_output=True, text=True, env=env)
        res['checks'][p] = {'exit': r.returncode, 'acceptable': r.returncode in meta.get('accept_exit', [0]), 'lines': [l for l in r.stdout.split('\n') if l.startswith(('VIOLATION', 'UNDECIDED'))][:3]}
        print(name, p, 'suite_ok=%s' % suite_ok, 'exit=%d' % r.returncode, res['checks'][p]['lines'], flush=True)
    out[name] = res
    shutil.rmtree(scratch, ignore_errors=True)
shutil.rmtree('/var/tmp/eqrun_target', ignore_errors=True)
json.dump(out, open(resf, 'w'), indent=1)
