#!/usr/bin/env python3
"""Run checks against the seeded changes under /verif/seeded (each applied to a scratch copy of /repo).
usage: mutrun.py [--tier quick] [--props C01,C02] [seed dirs...]   -> work/mutrun_results.json"""
import argparse, glob, json, os, shutil, subprocess, sys, time
VERIF = os.path.dirname(os.path.dirname(os.path.abspath(__file__)))
ap = argparse.ArgumentParser()
ap.add_argument('--tier', default='quick')
ap.add_argument('--props', default='')
ap.add_argument('--also', default='', help='comma list of extra properties to run for every mutant')
ap.add_argument('--out', default='mutrun_results.json')
ap.add_argument('seeds', nargs='*')
a = ap.parse_args()
seeds = [os.path.abspath(x) for x in a.seeds] or sorted(x for x in glob.glob(os.path.join(VERIF, 'seeded', '*')) if os.path.isdir(x))
resf = os.path.join(VERIF, 'work', a.out)
os.makedirs(os.path.dirname(resf), exist_ok=True)
results = json.load(open(resf)) if os.path.exists(resf) else {}
for sd in seeds:
    name = os.path.basename(sd.rstrip('/'))
    meta = json.load(open(os.path.join(sd, 'meta.json')))
    props = [meta['property']] + [p for p in a.also.split(',') if p]
    if a.props and meta['property'] not in a.props.split(','):
        continue
    scratch = '/var/tmp/mutrun_%s' % name
    shutil.rmtree(scratch, ignore_errors=True)
    subprocess.check_call(['rsync', '-a', '--exclude', 'target', '--exclude', '.git', '/repo/', scratch + '/'])
    rc = subprocess.run(['patch', '-p1', '-s', '-i', os.path.join(sd, 'patch.diff')], cwd=scratch, capture_output=True, text=True)
    if rc.returncode != 0:
        print(name, 'patch failed', rc.stdout[-300:])
        results[name] = {'error': 'patch failed'}
        continue
    for p in props:
        t0 = time.time()
        env = dict(os.environ, VERIF_REPO=scratch, VERIF_EVIDENCE_DIR='/var/tmp/mutrun_evidence', VERIF_REPLAY_DIR='/var/tmp/mutrun_replays')
        r = subprocess.run([sys.executable, os.path.join(VERIF, 'tools', 'check.py'), p, '--tier', a.tier], cwd=VERIF, capture_output=True, text=True, env=env)
        lines = [l for l in r.stdout.split('\n') if l.startswith(('VIOLATION', 'UNDECIDED', 'KNOWN'))]
        results.setdefault(name, {})[p] = {'exit': r.returncode, 'lines': lines[:6], 'wall_s': round(time.time() - t0, 1), 'tier': a.tier}
        print(name, p, 'exit=%d' % r.returncode, lines[:2], flush=True)
        json.dump(results, open(resf, 'w'), indent=1)
    shutil.rmtree(scratch, ignore_errors=True)
