#!/usr/bin/env python3
"""Run Verus on the extracted unit and turn its output into per-item verdicts."""
import json
import os
import re
import subprocess
import sys
import time

sys.path.insert(0, os.path.dirname(os.path.abspath(__file__)))
import extract  # noqa: E402

CANARY = """
pub mod canary {
    #[allow(unused_imports)] use vstd::prelude::*;
    // vacuity guard: this obligation is false and MUST be reported as failed on every run
    pub proof fn canary_must_fail(x: int) ensures x * x == -1 { }
}
"""

VERUS_FLAGS = ['--error-format=json', '--output-json', '--time-expanded', '--multiple-errors', '4']


def classify(diag, unit_name, item_of_line):
    """(kind, primary_line, callee_item)"""
    msg = diag.get('message', '')
    spans = diag.get('spans', [])
    prim = [s for s in spans if s.get('is_primary')]
    pl = None
    pfile = None
    if prim:
        pl = prim[0]['line_start']
        pfile = prim[0]['file_name']
    sec = [s for s in spans if not s.get('is_primary')]
    if 'Resource limit' in msg or 'rlimit' in msg:
        return 'rlimit', pl, None
    if msg.startswith('possible arithmetic underflow/overflow'):
        return 'overflow', pl, None
    if 'division by zero' in msg:
        return 'divzero', pl, None
    if 'type invariant' in msg:
        return 'type-inv', pl, None
    if msg.startswith('precondition not satisfied'):
        callee = None
        in_unit = False
        for s in sec:
            if s['file_name'].endswith(unit_name) and (s.get('label') or '').startswith('failed precondition'):
                in_unit = True
                callee = item_of_line(s['line_start'])
        if not in_unit:
            return 'std-pre', pl, None
        if callee is not None and (callee.get('fn') or '').endswith('_unchecked'):
            return 'unchecked-pre', pl, callee
        if callee is not None and callee.get('kind') in ('lemma',):
            return 'lemma-pre', pl, callee
        return 'pre', pl, callee
    if msg.startswith('postcondition not satisfied'):
        if pfile is not None and not pfile.endswith(unit_name):
            # failed postcondition lives in vstd (std trait spec); body span is secondary
            for s in sec:
                if s['file_name'].endswith(unit_name):
                    return 'std-post', s['line_start'], None
            return 'std-post', None, None
        return 'post', pl, None
    if msg.startswith('assertion failed'):
        return 'assert', pl, None
    if msg.startswith('aborting due to'):
        return 'summary', None, None
    return 'other', pl if (pfile or '').endswith(unit_name) else None, None


class VerusResult:
    def __init__(self):
        self.ok_to_use = False
        self.fatal = None            # text when the unit did not get to verification
        self.items = []              # manifest items
        self.failures = {}           # item key -> list of {kind, message, line, rendered, callee}
        self.checked = {}            # item key -> bool (seen in the function breakdown)
        self.times = {}              # breakdown name -> (ms, rlimit)
        self.verified = 0
        self.errors = 0
        self.canary_failed = False
        self.wall_s = 0.0
        self.cmd = ''
        self.problems = []
        self.unit_path = ''
        self.raw_err = ''
        self.scan = {}
        self.unattributed = []


def breakdown_name(it):
    """suffix under which Verus reports an item in its function breakdown"""
    fn = it.get('fn')
    mod = it.get('module')
    scope = it.get('scope') or ''
    if not fn or not mod:
        return None
    if scope.startswith('impl'):
        m = re.match(r'impl(?:<[^>]*>)?\s+(?:(.+?)\s+for\s+)?(.+)$', scope)
        ty = m.group(2).strip()
        if ty == 'SqlDate':
            return None   # impl block in oracle.rs on the aliased crate::date::Date: matched by suffix
        return 'unit::%s::%s::%s' % (mod, ty, fn)
    return 'unit::%s::%s' % (mod, fn)


def run(repo, workdir, seed=None, rlimit=None, only_modules=None, timeout=900, threads=None, demote=(), _depth=0):
    os.makedirs(workdir, exist_ok=True)
    res = VerusResult()
    unit = extract.build_unit(repo, demote=demote)
    res.problems = list(unit.problems)
    text = unit.text().replace('} // verus!', CANARY + '} // verus!')
    upath = os.path.join(workdir, 'unit.rs')
    open(upath, 'w', encoding='utf-8').write(text)
    json.dump({'items': unit.items, 'problems': unit.problems}, open(os.path.join(workdir, 'unit_manifest.json'), 'w'), indent=1)
    res.items = unit.items
    res.unit_path = upath
    res.scan = assumption_scan(text)
    if unit.problems:
        res.fatal = 'extraction problems: ' + '; '.join(unit.problems)
        return res
    cmd = ['verus', 'unit.rs'] + VERUS_FLAGS
    if seed is not None:
        cmd += ['--smt-option', 'smt.random_seed=%d' % seed, '--smt-option', 'sat.random_seed=%d' % seed]
    if rlimit is not None:
        cmd += ['--rlimit', str(rlimit)]
    if only_modules:
        for m in sorted(set(only_modules)):
            cmd += ['--verify-only-module', m]
    if threads:
        cmd += ['--num-threads', str(threads)]
    res.cmd = ' '.join(cmd)
    t0 = time.time()
    try:
        p = subprocess.run(cmd, cwd=workdir, capture_output=True, text=True, timeout=timeout)
    except subprocess.TimeoutExpired:
        res.fatal = 'verus timed out after %ds' % timeout
        return res
    res.wall_s = time.time() - t0
    res.raw_err = p.stderr
    try:
        out = json.loads(p.stdout)
    except Exception:
        res.fatal = 'verus produced no JSON (exit %s): %s' % (p.returncode, p.stderr[-2000:])
        return res
    vr = out.get('verification-results', {})
    res.verified = vr.get('verified', 0)
    res.errors = vr.get('errors', 0)
    ranged = [i for i in unit.items if i.get('lines')]

    def item_of_line(line):
        best = None
        for i in ranged:
            a, b = i['lines']
            if a <= line <= b and i.get('kind') in ('fn', 'const', 'lemma', 'law', 'spec'):
                if best is None or (b - a) < (best['lines'][1] - best['lines'][0]):
                    best = i
        return best
    canary_line = None
    for n, l in enumerate(text.split('\n'), 1):
        if 'pub proof fn canary_must_fail' in l:
            canary_line = n
    compile_errors = []
    front_items = []
    for line in p.stderr.split('\n'):
        line = line.strip()
        if not line.startswith('{'):
            continue
        try:
            d = json.loads(line)
        except Exception:
            continue
        if d.get('level') != 'error':
            continue
        kind, pl, callee = classify(d, 'unit.rs', item_of_line)
        if kind == 'summary':
            continue
        if pl is not None and canary_line is not None and canary_line <= pl <= canary_line + 1:
            res.canary_failed = True
            continue
        if d.get('code') is not None or vr.get('encountered-vir-error'):
            compile_errors.append(d.get('rendered', d.get('message', ''))[:1500])
            fit = item_of_line(pl) if pl is not None else None
            front_items.append(fit['item'] if (fit is not None and fit.get('kind') == 'fn' and fit.get('mode') == 'verified') else None)
            continue
        it = item_of_line(pl) if pl is not None else None
        rec = {'kind': kind, 'message': d.get('message', ''), 'line': pl, 'rendered': d.get('rendered', '')[:3000],
               'callee': callee['item'] if callee else None}
        if it is None:
            res.unattributed.append(rec)
        else:
            res.failures.setdefault(it['item'], []).append(rec)
    if (compile_errors or vr.get('encountered-vir-error')) and front_items and all(front_items) and _depth < 3:
        # every front-end error lies inside the body of an extracted function: that body left the Verus subset on this tree.
        # Demote those functions (contract kept for callers, body unverified = undecided) and verify the rest.
        r2 = run(repo, workdir, seed=seed, rlimit=rlimit, only_modules=only_modules, timeout=timeout, threads=threads,
                 demote=set(demote) | set(front_items), _depth=_depth + 1)
        for k in set(front_items):
            r2.failures.setdefault(k, []).append({'kind': 'unsupported', 'message': 'body is outside the Verus subset on this tree: ' + (compile_errors[0][:300] if compile_errors else ''),
                                                  'line': None, 'rendered': '\n'.join(compile_errors[:3]), 'callee': None})
        r2.demoted = sorted(set(getattr(r2, 'demoted', [])) | set(front_items))
        return r2
    if 'times-ms' not in out or compile_errors or vr.get('encountered-vir-error'):
        res.fatal = 'the extracted unit does not get through the Verus front end: ' + ('\n'.join(compile_errors[:5]) or p.stderr[-1500:])
        return res
    names = {}
    for m in out['times-ms']['smt']['smt-run-module-times']:
        for f in m.get('function-breakdown', []):
            names.setdefault(f['function'], []).append(f)
            res.times[f['function']] = (f.get('time', 0), f.get('rlimit', 0))
    # guard against silently skipped obligations: every verified item must show up in the breakdown
    # (Verus files a method under the module of its Self type, so names are matched by their last segment)
    tail_count = {}
    for k, fl in names.items():
        tail_count[k.rsplit('::', 1)[-1]] = tail_count.get(k.rsplit('::', 1)[-1], 0) + len(fl)
    want = {}
    for it in unit.items:
        if it.get('mode') == 'verified' and it.get('fn'):
            want.setdefault(it['fn'], []).append(it['item'])
    for fn, keys in want.items():
        okc = only_modules is not None or tail_count.get(fn, 0) >= len(keys)
        for k in keys:
            res.checked[k] = okc
    res.ok_to_use = True
    res.solver_ms = sum(v[0] for v in res.times.values())
    res.modules_run = only_modules
    return res


def assumption_scan(text):
    """mechanical scan of the generated unit for everything that is assumed rather than proved"""
    pats = {'assume(': r'\bassume\s*\(', 'admit(': r'\badmit\s*\(', 'external_body': r'verifier::external_body',
            'external': r'verifier::external\]', 'assume_specification': r'\bassume_specification\b',
            'obeys_*_spec = true (derived std-trait impl assumed structural)': r'fn obeys_\w+\(\) -> bool \{ true \}'}
    out = {}
    lines = text.split('\n')
    for k, p in pats.items():
        hits = []
        for n, l in enumerate(lines, 1):
            if re.search(p, l) and not l.strip().startswith('//'):
                nxt = ''
                for j in range(n, min(n + 4, len(lines))):
                    if re.search(r'\bfn\s+\w+|impl |const |type ', lines[j]):
                        nxt = lines[j].strip()[:100]
                        break
                hits.append({'line': n, 'text': l.strip()[:120], 'next': nxt})
        out[k] = hits
    return out
