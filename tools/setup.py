#!/usr/bin/env python3
"""setup: offline; builds what the checks need from files on disk only."""
import os, subprocess, sys
HERE = os.path.dirname(os.path.abspath(__file__))
VERIF = os.path.dirname(HERE)
rc = 0
for tool in ('verus', 'cargo', 'python3'):
    if subprocess.call(['which', tool], stdout=subprocess.DEVNULL) != 0:
        print('missing tool', tool); rc = 1
try:
    sys.path.insert(0, HERE)
    import kanirun
    rc |= kanirun.setup()
except ImportError:
    pass
try:
    import replay
    rc |= replay.setup()
except ImportError:
    pass
sys.exit(rc)
