"""Which obligations carry which property.

`verus`: regexes over item keys of the extraction manifest ("module :: scope / fn name",
"spec :: proof fn lemma", "laws :: fn law").  `kinds`: the Verus error kinds that count as a
failure *of this property* inside a listed item (None = the functional kinds).  `kani`: harness
names (contracts/kani/harnesses.py).  An item whose proof runs out of resources is undecided
for every property that lists it.
"""

# a function that can panic returns no value: arithmetic overflow / failed internal precondition inside a function
# under contract refutes its functional property as well as C03
# ... and so does a failed type invariant or a failed precondition of an *_unchecked constructor: Verus goes on ASSUMING the
# failed condition, so a body that builds a wrong (out-of-range) value in some case shows only that one error, and the
# postcondition is then proved for the remaining cases only
FUNCTIONAL = ('post', 'std-post', 'assert', 'lemma-pre', 'other', 'overflow', 'divzero', 'pre', 'std-pre', 'type-inv', 'unchecked-pre')
PANIC = ('overflow', 'divzero', 'pre', 'std-pre')
RANGE = ('type-inv', 'unchecked-pre')

ALL_EXEC = [r'^(common|date|time|interval|timestamp|oracle|format) :: (impl .* / )?(fn|const) ']

CAL_LEMMAS = [r'^spec :: proof fn lemma_(ld_shift|ld_step|stage12|stage3|stage4|stage5|stage6|j2d|cent|mtab|rata_bounds|bounds_forall|ld_mono|'
              r'year_step|year_mono|within_year|rata_strict_mono|rata_injective|succ|civil_unique|civil_props|year_range|range_ends|wd|div_step)$']
TIME_LEMMAS = [r'^spec :: proof fn lemma_(tod|hms_unique|hms_unique_all|dhms_unique|multiple|day_multiple|split_day|join_day|floor_units|'
               r'mod_units|round_units|round_carry|time_add|day_shift|trunc_day)$']

PROPS = {
    'C01': {
        'verus': [r'^common :: fn (date2julian|julian2date|is_valid_date|is_leap_year|days_of_month)$',
                  r'^common :: const (UNIX_EPOCH_JULIAN|DATE_MIN_JULIAN|DATE_MAX_JULIAN)$',
                  r'^date :: impl Date / (const MIN|const MAX|fn from_ymd_unchecked|fn try_from_ymd|fn is_valid|fn validate_ymd|fn days|'
                  r'fn from_days_unchecked|fn try_from_days|fn extract|fn add_days)$',
                  r'^date :: proof fn lemma_ext$',
                  r'^laws :: fn law_c01_'] + CAL_LEMMAS,
        'kinds': FUNCTIONAL + RANGE,
    },
    'C02': {'verus': ALL_EXEC, 'kinds': RANGE},
    'C03': {'verus': ALL_EXEC, 'kinds': PANIC},
    'C04': {
        'verus': [r' :: impl From<(Date|Time|Timestamp|IntervalYM|IntervalDT)> for NaiveDateTime / fn from$',
                  r'^format :: impl NaiveDateTime / fn (new|year|month|day|hour24|hour12|minute|sec|usec|negative)$',
                  r'^common :: fn the_day_of_year$',
                  r'^(date|time|interval|timestamp) :: impl (Date|Time|IntervalYM|IntervalDT|Timestamp) / fn extract$',
                  r'^oracle :: impl Date / fn extract$',
                  # the weekday tokens are rendered from DateTime::date() of the value
                  r'^(date|timestamp|oracle) :: impl DateTime for (Date|Timestamp) / fn date$',
                  r'^(timestamp|oracle) :: impl (Timestamp|Date) / fn date$'],
        'kinds': FUNCTIONAL,
    },
    'C05': {
        'verus': [r' :: impl TryFrom<&?NaiveDateTime> for (Date|Time|Timestamp|IntervalYM|IntervalDT) / fn try_from$',
                  r'^format :: impl NaiveDateTime / fn adjust_hour12$',
                  r'^date :: impl Date / fn (try_from_ymd|validate_ymd)$', r'^time :: impl Time / fn (validate_hms|try_from_usecs)$',
                  r'^timestamp :: impl Timestamp / fn try_from_usecs$',
                  r'^interval :: impl IntervalYM / fn try_from_ym$', r'^interval :: impl IntervalDT / fn try_from_dhms$'],
        'kinds': FUNCTIONAL,
    },
    'C06': {
        'verus': [r'^laws :: fn law_c06_',
                  r' :: impl From<(Date|Time|Timestamp|IntervalYM|IntervalDT)> for NaiveDateTime / fn from$',
                  r' :: impl TryFrom<&?NaiveDateTime> for (Date|Time|Timestamp|IntervalYM|IntervalDT) / fn try_from$'],
        'kinds': FUNCTIONAL,
    },
    'C07': {
        'verus': [r'^timestamp :: impl Timestamp / (const MIN|const MAX|fn new|fn extract|fn date|fn time|fn usecs|fn from_usecs_unchecked|fn try_from_usecs)$',
                  r'^time :: impl Time / (const ZERO|const MAX|fn from_hms_unchecked|fn try_from_hms|fn is_valid|fn validate_hms|fn usecs|'
                  r'fn from_usecs_unchecked|fn try_from_usecs|fn extract)$',
                  r'^date :: impl Date / fn (and_hms|and_time|and_zero_time)$',
                  r'^(date|time|timestamp) :: impl DateTime for (Date|Time|Timestamp) / fn ',
                  r'^common :: fn (is_valid_time|is_valid_timestamp)$', r'^common :: const (TIMESTAMP_MIN|TIMESTAMP_MAX)$',
                  r'^time :: impl From<Timestamp> for Time / fn from$',
                  # "equality, ordering ... of dates, times and timestamps follow chronological order": also across the two types
                  r'^(date|timestamp) :: impl Partial(Eq|Ord)<(Date|Timestamp)> for (Date|Timestamp) / fn ',
                  r'^(time|timestamp) :: proof fn lemma_ext$',
                  r'^laws :: fn law_c07_'] + TIME_LEMMAS,
        'kinds': FUNCTIONAL,
    },
    'C08': {
        'verus': [r'^date :: impl Date / fn (add_days|sub_days|sub_date|add_interval_dt|sub_interval_dt|add_time|sub_time|sub_timestamp)$',
                  r'^timestamp :: impl Timestamp / fn (add_interval_dt|sub_interval_dt|add_time|sub_time|sub_date|sub_timestamp|try_from_usecs|add_days|sub_days)$',
                  r'^interval :: impl IntervalYM / fn (add_interval_ym|sub_interval_ym|negate|try_from_months)$',
                  r'^interval :: impl IntervalDT / fn (add_interval_dt|sub_interval_dt|sub_time|negate|try_from_usecs)$',
                  r'^oracle :: impl Date / fn (add_time|sub_time|sub_timestamp)$', r'^oracle :: impl Timestamp / fn oracle_sub_date$',
                  r'^laws :: fn law_c08_'],
        'kinds': FUNCTIONAL,
    },
    'C09': {
        'verus': [r'^date :: impl Date / fn (add_interval_ym_internal|add_interval_ym|sub_interval_ym|last_day_of_month)$',
                  r'^timestamp :: impl Timestamp / fn (add_interval_ym|sub_interval_ym|last_day_of_month)$',
                  r'^oracle :: impl Date / fn (add_interval_ym|sub_interval_ym|last_day_of_month)$',
                  r'^interval :: impl (Neg for )?IntervalYM / fn (negate|neg)$',
                  r'^common :: fn days_of_month$',
                  r'^laws :: fn law_c09_'],
        'kinds': FUNCTIONAL,
    },
    'C10': {
        'verus': [r'^(date|timestamp|oracle) :: impl Trunc for (Date|Timestamp) / fn trunc_',
                  r'^date :: fn (current_date|sub_to_date)$',
                  r'^spec :: proof fn lemma_(iso_year_jan4|trunc_|iso_|dn_le_lex|civil_of)', r'^laws :: fn law_c10_'],
        'kinds': FUNCTIONAL,
    },
    'C11': {
        'verus': [r'^(date|timestamp|oracle) :: impl Round for (Date|Timestamp) / fn round_',
                  r'^spec :: proof fn lemma_(round_units|round_carry|iso_year_jan4|round_|trunc_.*_greatest|iso_)', r'^laws :: fn law_c11_'],
        'kinds': FUNCTIONAL,
    },
    'C12': {
        'verus': [r'^time :: impl Time / fn (add_interval_dt|sub_interval_dt|sub_time)$',
                  r'^time :: impl From<IntervalDT> for Time / fn from$', r'^interval :: impl From<Time> for IntervalDT / fn from$',
                  r'^time :: impl Partial(Eq|Ord)<IntervalDT> for Time / fn ', r'^interval :: impl Partial(Eq|Ord)<Time> for IntervalDT / fn ',
                  r'^spec :: proof fn lemma_time_add$', r'^laws :: fn law_c12_'],
        'kinds': FUNCTIONAL,
    },
    'C13': {
        'verus': [r'^interval :: impl Interval(YM|DT) / ', r'^interval :: impl (Neg|DateTime) for Interval(YM|DT) / fn ',
                  r'^interval :: const ', r'^interval :: proof fn lemma_ext$', r'^laws :: fn law_c13_'],
        'kinds': FUNCTIONAL,
    },
    'C14': {'verus': [r'^interval :: impl Interval(YM|DT) / fn (mul_f64|div_f64)$', r'^time :: impl Time / fn (mul_f64|div_f64)$',
                      r'^interval :: impl Interval(YM|DT) / fn (try_from_months|try_from_usecs)$'],
            'kinds': FUNCTIONAL},
    'C15': {'verus': [r'^laws :: fn law_c15_', r'^laws :: fn law_c06_',
                      r'^(date|time|timestamp|interval|oracle) :: impl (Date|Time|Timestamp|IntervalYM|IntervalDT) / fn (try_from_days|try_from_usecs|try_from_months)$',
                      # the human-readable payload is decoded by the shared parser and ends in these checked constructors
                      r' :: impl TryFrom<&?NaiveDateTime> for (Date|Time|Timestamp|IntervalYM|IntervalDT) / fn try_from$',
                      r'^date :: impl Date / fn (try_from_ymd|validate_ymd|is_valid)$', r'^time :: impl Time / fn (try_from_hms|validate_hms|is_valid)$',
                      r'^interval :: impl IntervalYM / fn (try_from_ym|is_valid_ym|is_valid_months)$',
                      r'^interval :: impl IntervalDT / fn (try_from_dhms|is_valid|is_valid_usecs)$',
                      r'^oracle :: impl Date / fn (new|try_from_usecs|is_valid_date)$', r'^oracle :: impl From<Timestamp> for Date / fn from$',
                      # the text form is rendered from the field record of the value
                      r' :: impl From<(Date|Time|Timestamp|IntervalYM|IntervalDT)> for NaiveDateTime / fn from$',
                      r'^(date|time|interval|timestamp) :: impl (Date|Time|IntervalYM|IntervalDT|Timestamp) / fn extract$', r'^oracle :: impl Date / fn extract$',
                      r'^common :: fn (julian2date|date2julian|is_leap_year|days_of_month)$'],
            'kinds': FUNCTIONAL + RANGE},
    'C16': {
        'verus': [r'^oracle :: ', r'^laws :: fn law_c16_', r'^spec :: proof fn lemma_(round_sec|floor_units|day_shift)$'],
        'kinds': FUNCTIONAL + RANGE,
    },
    'C17': {
        'verus': [r'^laws :: fn law_c17_',
                  r'^(timestamp|oracle) :: impl (Trunc|Round) for (Timestamp|Date) / fn ',
                  r' :: impl Partial(Eq|Ord)<(Date|Timestamp|SqlDate)> for (Date|Timestamp|SqlDate) / fn ',
                  r'^timestamp :: impl From<Date> for Timestamp / fn from$', r'^oracle :: impl From<(Date|Timestamp)> for (Date|Timestamp) / fn from$',
                  # the agreement laws are proved over the contracts of the operations the three types share: each of those
                  # functions has to meet its contract for the agreement to mean anything
                  r'^(date|timestamp|oracle) :: impl (Date|Timestamp) / fn (last_day_of_month|add_interval_ym|sub_interval_ym|add_interval_ym_internal|'
                  r'add_interval_dt|sub_interval_dt|add_time|sub_time|sub_date|sub_timestamp|and_zero_time|date|time)$',
                  r'^date :: impl (Trunc|Round) for Date / fn ',
                  r'^(date|timestamp|oracle) :: impl DateTime for (Date|Timestamp) / fn '],
        'kinds': FUNCTIONAL,
    },
    'C18': {'verus': [], 'kinds': FUNCTIONAL},
    'C19': {'verus': [], 'kinds': FUNCTIONAL},
}
