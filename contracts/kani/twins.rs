//! Executable twins of the spec functions (contracts/spec/*.rs) for the Kani harnesses.
//! Plain i64 arithmetic, no implementation tables.  The same file is extracted into the Verus
//! unit (module `twins`) where every twin is proved equal to its spec function, so the two
//! renderings of a shared contract cannot drift.

pub const K_DATE_MIN: i64 = -719162;
pub const K_DATE_MAX: i64 = 2932896;
pub const K_US_DAY: i64 = 86_400_000_000;
pub const K_TS_MIN: i64 = -62_135_596_800_000_000;
pub const K_TS_MAX: i64 = 253_402_300_799_999_999;

pub fn k_leap(y: i64) -> bool {
    y % 4 == 0 && (y % 100 != 0 || y % 400 == 0)
}

pub fn k_cum(m: i64) -> i64 {
    if m == 1 { 0 } else if m == 2 { 31 } else if m == 3 { 59 } else if m == 4 { 90 }
    else if m == 5 { 120 } else if m == 6 { 151 } else if m == 7 { 181 } else if m == 8 { 212 }
    else if m == 9 { 243 } else if m == 10 { 273 } else if m == 11 { 304 } else { 334 }
}

pub fn k_mdays(y: i64, m: i64) -> i64 {
    if m == 2 { if k_leap(y) { 29 } else { 28 } }
    else if m == 4 || m == 6 || m == 9 || m == 11 { 30 } else { 31 }
}

pub fn k_date_ok(y: i64, m: i64, d: i64) -> bool {
    1 <= y && y <= 9999 && 1 <= m && m <= 12 && 1 <= d && d <= k_mdays(y, m)
}

/// floor division by a positive divisor
pub fn k_fdiv(a: i64, b: i64) -> i64 {
    if a >= 0 { a / b } else { -((-a + b - 1) / b) }
}

/// day number (1970-01-01 = 0) of a civil date (proleptic, any year in -4700..=100000)
pub fn k_dn(y: i64, m: i64, d: i64) -> i64 {
    let p = y - 1;
    365 * p + k_fdiv(p, 4) - k_fdiv(p, 100) + k_fdiv(p, 400) + k_cum(m) + (if m > 2 && k_leap(y) { 1 } else { 0 }) + d - 1 - 719162
}

/// weekday number, Sunday = 1 .. Saturday = 7
pub fn k_wd(n: i64) -> i64 {
    ((n + 4) % 7 + 7) % 7 + 1
}

/// the Monday that starts ISO year y
pub fn k_iso_start(y: i64) -> i64 {
    let j4 = k_dn(y, 1, 4);
    j4 - (k_wd(j4) + 5) % 7
}

/// ISO year of the day number n whose civil year is y
pub fn k_iso_year_of(n: i64, y: i64) -> i64 {
    if n < k_iso_start(y) { y - 1 } else if n >= k_iso_start(y + 1) { y + 1 } else { y }
}

pub fn k_hms_us(h: i64, mi: i64, s: i64, us: i64) -> i64 {
    h * 3_600_000_000 + mi * 60_000_000 + s * 1_000_000 + us
}
