//! Kani obligations for format.rs, injected as a child module of `format` (sees private items):
//! picture lexer (C19), scanners (C05/C03), per-token rendering (C04), short-picture parses (C05/C06/C18).
#![allow(unused_imports, dead_code, unused_variables, unused_mut)]

use super::*;
use crate::kverif::twins::*;
use core::fmt::Write;

// =========================================================================================
// fixed-capacity text sink
// =========================================================================================
pub struct Sink {
    pub buf: [u8; 16],
    pub len: usize,
}

impl Sink {
    pub fn new() -> Self {
        Sink { buf: [0; 16], len: 0 }
    }
    pub fn eq_bytes(&self, s: &[u8]) -> bool {
        if self.len != s.len() {
            return false;
        }
        let mut i = 0;
        while i < s.len() {
            if self.buf[i] != s[i] {
                return false;
            }
            i += 1;
        }
        true
    }
}

impl fmt::Write for Sink {
    fn write_str(&mut self, s: &str) -> fmt::Result {
        let b = s.as_bytes();
        if self.len + b.len() > 16 {
            return Err(fmt::Error);
        }
        let mut i = 0;
        while i < b.len() {
            self.buf[self.len + i] = b[i];
            i += 1;
        }
        self.len += b.len();
        Ok(())
    }
}

// =========================================================================================
// C19: the picture lexer against a reference longest-match tokenizer written from the property
// =========================================================================================
#[derive(PartialEq, Clone, Copy)]
pub enum RefTok {
    Blank,
    Punct(u8),
    T,
    Year(u8),
    Month,
    Mon,
    MonthName,
    Day,
    DayOfYear,
    DayOfWeek,
    DayName,
    Dy,
    Hour12,
    Hour24,
    Minute,
    Second,
    Fraction(u8), // 0 = FF
    AmPm,
    AmPmDot,
    WeekOfMonth,
    WeekOfYear,
}

fn lower(b: u8) -> u8 {
    if b >= b'A' && b <= b'Z' { b + 32 } else { b }
}

/// case-insensitive: does `s` start with `pat` (pat given in lower case)?
fn ci(s: &[u8], pat: &[u8]) -> bool {
    if s.len() < pat.len() {
        return false;
    }
    let mut i = 0;
    while i < pat.len() {
        if lower(s[i]) != pat[i] {
            return false;
        }
        i += 1;
    }
    true
}

/// the longest documented token at the start of `s` and its length
pub fn ref_token(s: &[u8]) -> Option<(RefTok, usize)> {
    if s.is_empty() {
        return None;
    }
    let c = s[0];
    if c == b' ' {
        let mut n = 1;
        while n < s.len() && s[n] == b' ' {
            n += 1;
        }
        return Some((RefTok::Blank, n));
    }
    if c == b'-' || c == b':' || c == b'/' || c == b'\\' || c == b',' || c == b'.' || c == b';' {
        return Some((RefTok::Punct(c), 1));
    }
    if c == b'T' {
        return Some((RefTok::T, 1));
    }
    if ci(s, b"yyyy") { return Some((RefTok::Year(4), 4)); }
    if ci(s, b"yyy") { return Some((RefTok::Year(3), 3)); }
    if ci(s, b"yy") { return Some((RefTok::Year(2), 2)); }
    if ci(s, b"y") { return Some((RefTok::Year(1), 1)); }
    if ci(s, b"month") { return Some((RefTok::MonthName, 5)); }
    if ci(s, b"mon") { return Some((RefTok::Mon, 3)); }
    if ci(s, b"mm") { return Some((RefTok::Month, 2)); }
    if ci(s, b"mi") { return Some((RefTok::Minute, 2)); }
    if ci(s, b"ddd") { return Some((RefTok::DayOfYear, 3)); }
    if ci(s, b"day") { return Some((RefTok::DayName, 3)); }
    if ci(s, b"dd") { return Some((RefTok::Day, 2)); }
    if ci(s, b"dy") { return Some((RefTok::Dy, 2)); }
    if ci(s, b"d") { return Some((RefTok::DayOfWeek, 1)); }
    if ci(s, b"hh24") { return Some((RefTok::Hour24, 4)); }
    if ci(s, b"hh12") { return Some((RefTok::Hour12, 4)); }
    if ci(s, b"hh") { return Some((RefTok::Hour12, 2)); }
    if ci(s, b"ss") { return Some((RefTok::Second, 2)); }
    if ci(s, b"ff") {
        if s.len() >= 3 && s[2] >= b'1' && s[2] <= b'9' {
            return Some((RefTok::Fraction(s[2] - b'0'), 3));
        }
        return Some((RefTok::Fraction(0), 2));
    }
    if ci(s, b"a.m.") || ci(s, b"p.m.") { return Some((RefTok::AmPmDot, 4)); }
    if ci(s, b"am") || ci(s, b"pm") { return Some((RefTok::AmPm, 2)); }
    if ci(s, b"ww") { return Some((RefTok::WeekOfYear, 2)); }
    if ci(s, b"w") { return Some((RefTok::WeekOfMonth, 1)); }
    None
}

/// name style selected by the letter case of the first two letters
fn ref_style(s: &[u8], abbr: bool) -> NameStyle {
    let up0 = s[0] >= b'A' && s[0] <= b'Z';
    let up1 = s[1] >= b'A' && s[1] <= b'Z';
    match (up0, up1, abbr) {
        (true, true, false) => NameStyle::Upper,
        (true, false, false) => NameStyle::Capital,
        (false, _, false) => NameStyle::Lower,
        (true, true, true) => NameStyle::AbbrUpper,
        (true, false, true) => NameStyle::AbbrCapital,
        (false, _, true) => NameStyle::AbbrLower,
    }
}

fn field_matches(f: &Field, t: RefTok, s: &[u8], n: usize) -> bool {
    match (f, t) {
        (Field::Blank(k), RefTok::Blank) => *k as usize == n,
        (Field::Hyphen, RefTok::Punct(b'-')) => true,
        (Field::Colon, RefTok::Punct(b':')) => true,
        (Field::Slash, RefTok::Punct(b'/')) => true,
        (Field::Backslash, RefTok::Punct(b'\\')) => true,
        (Field::Comma, RefTok::Punct(b',')) => true,
        (Field::Dot, RefTok::Punct(b'.')) => true,
        (Field::Semicolon, RefTok::Punct(b';')) => true,
        (Field::T, RefTok::T) => true,
        (Field::Year(k), RefTok::Year(j)) => *k == j,
        (Field::Month, RefTok::Month) => true,
        (Field::MonthName(st), RefTok::MonthName) => *st == ref_style(s, false),
        (Field::MonthName(st), RefTok::Mon) => *st == ref_style(s, true),
        (Field::Day, RefTok::Day) => true,
        (Field::DayOfYear, RefTok::DayOfYear) => true,
        (Field::DayOfWeek, RefTok::DayOfWeek) => true,
        (Field::DayName(st), RefTok::DayName) => *st == ref_style(s, false),
        (Field::DayName(st), RefTok::Dy) => *st == ref_style(s, true),
        (Field::Hour12, RefTok::Hour12) => true,
        (Field::Hour24, RefTok::Hour24) => true,
        (Field::Minute, RefTok::Minute) => true,
        (Field::Second, RefTok::Second) => true,
        (Field::Fraction(None), RefTok::Fraction(0)) => true,
        (Field::Fraction(Some(p)), RefTok::Fraction(q)) => *p == q && q != 0,
        (Field::AmPm(st), RefTok::AmPm) => *st == AmPmStyle::Upper || *st == AmPmStyle::Lower,
        (Field::AmPm(st), RefTok::AmPmDot) => *st == AmPmStyle::UpperDot || *st == AmPmStyle::LowerDot,
        (Field::WeekOfMonth, RefTok::WeekOfMonth) => true,
        (Field::WeekOfYear, RefTok::WeekOfYear) => true,
        _ => false,
    }
}

fn ref_accepts(pic: &[u8]) -> bool {
    let mut pos = 0;
    while pos < pic.len() {
        match ref_token(&pic[pos..]) {
            Some((_, n)) => pos += n,
            None => return false,
        }
    }
    true
}

fn lex_check(pic: &[u8]) {
    let want = ref_accepts(pic);
    let mut p = FormatParser::new(pic);
    let mut pos = 0usize;
    let mut accepted = true;
    loop {
        let before = p.pos;
        match p.next() {
            None => break,
            Some(Field::Invalid) => {
                accepted = false;
                break;
            }
            Some(f) => {
                if want {
                    // same token boundaries, same field, same style
                    let r = ref_token(&pic[pos..]);
                    assert!(r.is_some());
                    let (t, n) = r.unwrap();
                    assert!(before == pos);
                    assert!(p.pos - before == n);
                    assert!(field_matches(&f, t, &pic[pos..], n));
                    pos += n;
                }
            }
        }
    }
    assert!(accepted == want);
}

#[kani::proof]
#[kani::unwind(6)]
fn lex_picture_len4_bounded() {
    let bytes: [u8; 4] = kani::any();
    let len: usize = kani::any();
    kani::assume(len <= 4);
    lex_check(&bytes[..len]);
}

#[kani::proof]
#[kani::unwind(7)]
fn lex_picture_len5_bounded() {
    let bytes: [u8; 5] = kani::any();
    let len: usize = kani::any();
    kani::assume(len <= 5);
    lex_check(&bytes[..len]);
}

#[kani::proof]
#[kani::unwind(8)]
fn lex_picture_len6_bounded() {
    let bytes: [u8; 6] = kani::any();
    let len: usize = kani::any();
    kani::assume(len <= 6);
    lex_check(&bytes[..len]);
}

/// one token at the start of an 8-byte window: every token-boundary decision of `next()`
#[kani::proof]
#[kani::unwind(10)]
fn lex_first_token_bounded() {
    let bytes: [u8; 8] = kani::any();
    let len: usize = kani::any();
    kani::assume(len >= 1 && len <= 8);
    let pic = &bytes[..len];
    let mut p = FormatParser::new(pic);
    let f = p.next().unwrap();
    match ref_token(pic) {
        None => assert!(f == Field::Invalid),
        Some((t, n)) => {
            if f == Field::Invalid {
                // allowed only where the reference rejects the continuation (e.g. "FF0", "A.M" + garbage)
                assert!(!ref_accepts(pic));
            } else {
                assert!(p.pos == n);
                assert!(field_matches(&f, t, pic, n));
            }
        }
    }
}

/// a run of blanks of any length is one or more Blank fields whose lengths add up to the run
fn blank_run_check<const N: usize>() {
    let bytes = [b' '; N];
    let len: usize = kani::any();
    kani::assume(len >= 1 && len <= N);
    let mut p = FormatParser::new(&bytes[..len]);
    let mut total = 0usize;
    let mut fields = 0usize;
    loop {
        match p.next() {
            None => break,
            Some(Field::Blank(n)) => {
                assert!(n >= 1);
                total += n as usize;
                fields += 1;
            }
            Some(_) => assert!(false),
        }
    }
    assert!(total == len);
    assert!(fields <= 3);
}

/// contract of `next()` at the start of a blank run of length R (ended by the end of the picture or by any non-blank byte):
/// it emits Blank(min(R, 255)) and advances by exactly that much.  By induction over the calls, a run of ANY length is
/// reproduced with the same total length (each call consumes what it reports; a remainder is again a blank run).
fn blank_token_check<const N: usize>(run: usize) {
    let mut bytes = [b' '; N];
    kani::assume(run >= 1 && run < N);
    let sentinel: u8 = kani::any();
    kani::assume(sentinel != b' ');
    let ends_input: bool = kani::any();
    // (element-wise, concrete indices: a store at a symbolic index makes every later read an array-theory lookup)
    let mut k = 0;
    while k < N { if k == run { bytes[k] = sentinel; } k += 1; }
    let len = if ends_input { run } else { run + 1 };
    let mut p = FormatParser::new(&bytes[..len]);
    let want = if run < 255 { run } else { 255 };
    match p.next() {
        Some(Field::Blank(n)) => { assert!(n as usize == want); assert!(p.pos == want); }
        _ => assert!(false),
    }
}

#[kani::proof]
#[kani::unwind(302)]
fn lex_blank_token_contract_bounded() { blank_token_check::<300>(kani::any()); }

/// quick tier: the run lengths around the 255 split of the u8 counter
#[kani::proof]
#[kani::unwind(266)]
fn lex_blank_token_split_bounded() {
    let run: usize = kani::any();
    kani::assume(run >= 250 && run <= 262);
    blank_token_check::<264>(run);
}

/// quick tier: every run length up to 40
#[kani::proof]
#[kani::unwind(45)]
fn lex_blank_token_quick_bounded() {
    blank_token_check::<42>(kani::any());
}

#[kani::proof]
#[kani::unwind(605)]
fn lex_blank_run_bounded() { blank_run_check::<600>(); }

/// at most 36 tokens
#[kani::proof]
#[kani::unwind(40)]
#[kani::stub(crate::util::try_format, stub_try_format)]
#[kani::stub(<str as crate::util::StrExt>::try_to_string, stub_try_to_string)]
fn picture_token_limit() {
    let p36 = "-:-:-:-:-:-:-:-:-:-:-:-:-:-:-:-:-:-:";
    let p37 = "-:-:-:-:-:-:-:-:-:-:-:-:-:-:-:-:-:-:-";
    assert!(p36.len() == 36 && p37.len() == 37);
    let a = Formatter::try_new(p36);
    assert!(a.is_ok());
    assert!(a.unwrap().fields.len() == 36);
    assert!(Formatter::try_new(p37).is_err());
    assert!(Formatter::try_new("").is_ok());
}

pub fn stub_try_format(_args: fmt::Arguments<'_>) -> Result<String> {
    // the error text is never built: the caller's `?` passes this unit variant on (only Ok / Err is observed)
    Err(Error::NumericOverflow)
}

/// error texts are not part of any property: the allocation-fallible copy is replaced by an empty string
pub fn stub_try_to_string(_s: &str) -> Result<String> {
    Err(Error::DivideByZero)
}

// =========================================================================================
// C05 / C03: scanner contracts
// =========================================================================================
fn is_digit(b: u8) -> bool {
    b >= b'0' && b <= b'9'
}

#[kani::proof]
#[kani::unwind(14)]
fn scan_parse_number_bounded() {
    let bytes: [u8; 12] = kani::any();
    let len: usize = kani::any();
    kani::assume(len <= 12);
    let max_len: usize = kani::any();
    kani::assume(max_len >= 1 && max_len <= 9);
    let input = &bytes[..len];
    let r = parse_number(input, max_len);
    if len == 0 {
        assert!(r.is_err());
        return;
    }
    let signed = input[0] == b'+' || input[0] == b'-';
    let start = if signed { 1 } else { 0 };
    let mut k = 0usize;
    let mut val: i64 = 0;
    while start + k < len && k < max_len && is_digit(input[start + k]) {
        val = val * 10 + (input[start + k] - b'0') as i64;
        k += 1;
    }
    if k == 0 {
        assert!(r.is_err());
    } else {
        assert!(r.is_ok());
        let (neg, n, rem) = r.unwrap();
        assert!(neg == (input[0] == b'-'));
        assert!(n as i64 == if neg { -val } else { val });
        assert!(n > -1_000_000_000 && n < 1_000_000_000);
        assert!(rem.len() == len - start - k);
        assert!(rem.as_ptr() == input[start + k..].as_ptr());
    }
}

#[kani::proof]
#[kani::unwind(12)]
fn scan_parse_fraction_short_bounded() {
    // up to six digits: exact scaling to microseconds
    let bytes: [u8; 8] = kani::any();
    let len: usize = kani::any();
    kani::assume(len <= 8);
    let max_len: usize = kani::any();
    kani::assume(max_len >= 1 && max_len <= 6);
    let input = &bytes[..len];
    let r = parse_fraction(input, max_len);
    if len == 0 {
        assert!(r.is_ok() && r.unwrap().0 == 0);
        return;
    }
    if input[0] == b'-' {
        assert!(r.is_err());
        return;
    }
    let mut k = 0usize;
    let mut val: u64 = 0;
    while k < len && k < max_len && is_digit(input[k]) {
        val = val * 10 + (input[k] - b'0') as u64;
        k += 1;
    }
    let mut scale: u64 = 1;
    let mut j = k;
    while j < 6 {
        scale *= 10;
        j += 1;
    }
    assert!(r.is_ok());
    let (usec, rem) = r.unwrap();
    assert!(usec as u64 == val * scale);
    assert!(rem.len() == len - k);
}

fn fraction_round_check(digits: usize) {
    // 7..9 digits: rounded half-up to microseconds (may carry to 1_000_000)
    let v: u32 = kani::any();
    let (lim, div): (u32, u32) = match digits { 7 => (10_000_000, 10), 8 => (100_000_000, 100), _ => (1_000_000_000, 1000) };
    kani::assume(v < lim);
    let mut buf = [b'0'; 9];
    let mut x = v;
    let mut i = digits;
    while i > 0 {
        buf[i - 1] = b'0' + (x % 10) as u8;
        x /= 10;
        i -= 1;
    }
    let r = parse_fraction(&buf[..digits], 9);
    assert!(r.is_ok());
    let (usec, rem) = r.unwrap();
    assert!(rem.is_empty());
    assert!(usec == (v + div / 2) / div);
    assert!(usec <= 1_000_000);
}

/// quick stand-in for the three obligations below: four concrete six-digit prefixes, EVERY seventh / eighth / ninth digit,
/// widths 7..=9: half-up rounding from the full digit string (one rounding, not digit by digit), carry into the prefix
#[kani::proof]
#[kani::unwind(12)]
fn scan_parse_fraction_round_tail_bounded() {
    let sel: u8 = kani::any();
    let (prefix, text): (u32, [u8; 6]) = match sel % 4 {
        0 => (0, *b"000000"), 1 => (123_456, *b"123456"), 2 => (499_999, *b"499999"), _ => (999_999, *b"999999") };
    let d: [u8; 3] = kani::any();
    kani::assume(d[0] <= 9 && d[1] <= 9 && d[2] <= 9);
    let digits: usize = kani::any();
    kani::assume(digits >= 7 && digits <= 9);
    let mut buf = [b'0'; 9];
    let mut i = 0;
    while i < 6 { buf[i] = text[i]; i += 1; }
    buf[6] = b'0' + d[0]; buf[7] = b'0' + d[1]; buf[8] = b'0' + d[2];
    let r = parse_fraction(&buf[..digits], 9);
    assert!(r.is_ok());
    let (usec, rem) = r.unwrap();
    assert!(rem.is_empty());
    // half-up on the digits actually read: the first dropped digit decides
    let want = prefix + if d[0] >= 5 { 1 } else { 0 };
    assert!(usec == want);
}

#[kani::proof]
#[kani::unwind(12)]
fn scan_parse_fraction_round7() {
    fraction_round_check(7);
}

#[kani::proof]
#[kani::unwind(12)]
fn scan_parse_fraction_round8() {
    fraction_round_check(8);
}

#[kani::proof]
#[kani::unwind(12)]
fn scan_parse_fraction_round9() {
    fraction_round_check(9);
}

/// blanks: exactly the maximal prefix of ASCII whitespace (space, tab, line feed, form feed, carriage return) is skipped -
/// this is the contract the logged oracle `eat_whitespaces_oracle` stands for in the parser obligations
#[kani::proof]
#[kani::unwind(9)]
fn scan_eat_whitespaces_bounded() {
    let bytes: [u8; 6] = kani::any();
    let len: usize = kani::any();
    kani::assume(len <= 6);
    let input = &bytes[..len];
    let rest = eat_whitespaces(input);
    let is_ws = |b: u8| b == b' ' || b == b'\t' || b == b'\n' || b == 0x0C || b == b'\r';
    let mut k = 0;
    while k < len && is_ws(bytes[k]) { k += 1; }
    assert!(rest.len() == len - k);
    assert!(rest.as_ptr() == unsafe { input.as_ptr().add(k) });
}

#[kani::proof]
#[kani::unwind(8)]
fn scan_week_day_number() {
    let bytes: [u8; 3] = kani::any();
    let len: usize = kani::any();
    kani::assume(len <= 3);
    let input = &bytes[..len];
    let r = parse_week_day_number(input);
    if len >= 1 && input[0] >= b'1' && input[0] <= b'7' {
        assert!(r.is_ok());
        let (d, rem) = r.unwrap();
        assert!(d as u8 == input[0] - b'0');
        assert!(rem.len() == len - 1);
    } else {
        assert!(r.is_err());
    }
}

#[kani::proof]
#[kani::unwind(8)]
fn scan_ampm_bounded() {
    let bytes: [u8; 6] = kani::any();
    let len: usize = kani::any();
    kani::assume(len <= 6);
    let dotted: bool = kani::any();
    let upper: bool = kani::any();
    let style = match (dotted, upper) {
        (true, true) => AmPmStyle::UpperDot,
        (true, false) => AmPmStyle::LowerDot,
        (false, true) => AmPmStyle::Upper,
        (false, false) => AmPmStyle::Lower,
    };
    let input = &bytes[..len];
    let r = parse_ampm(input, &style);
    if len == 0 {
        assert!(r.is_ok() && r.unwrap().0.is_none());
        return;
    }
    let (am, pm, n): (bool, bool, usize) = if dotted {
        (ci(input, b"a.m."), ci(input, b"p.m."), 4)
    } else {
        (ci(input, b"am"), ci(input, b"pm"), 2)
    };
    if am || pm {
        assert!(r.is_ok());
        let (v, rem) = r.unwrap();
        assert!(rem.len() == len - n);
        match v {
            Some(AmPm::Am) => assert!(am),
            Some(AmPm::Pm) => assert!(pm),
            None => assert!(false),
        }
    } else {
        assert!(r.is_err());
    }
}

const REF_MONTHS: [&[u8]; 12] = [b"january", b"february", b"march", b"april", b"may", b"june", b"july", b"august", b"september",
    b"october", b"november", b"december"];
const REF_DAYS: [&[u8]; 7] = [b"sunday", b"monday", b"tuesday", b"wednesday", b"thursday", b"friday", b"saturday"];

#[kani::proof]
#[kani::unwind(14)]
fn scan_month_name_bounded() {
    let bytes: [u8; 10] = kani::any();
    let len: usize = kani::any();
    kani::assume(len <= 10);
    let input = &bytes[..len];
    let r = parse_month_name(input);
    // full name first, then the three-letter abbreviation, any letter case
    let mut want: Option<(usize, usize)> = None;
    let mut i = 0;
    while i < 12 {
        if want.is_none() && ci(input, REF_MONTHS[i]) {
            want = Some((i + 1, REF_MONTHS[i].len()));
        }
        i += 1;
    }
    i = 0;
    while i < 12 {
        if want.is_none() && ci(input, &REF_MONTHS[i][..3]) {
            want = Some((i + 1, 3));
        }
        i += 1;
    }
    match want {
        Some((m, n)) => {
            assert!(r.is_ok());
            let (mon, rem) = r.unwrap();
            assert!(mon as usize == m);
            assert!(rem.len() == len - n);
        }
        None => assert!(r.is_err()),
    }
}

#[kani::proof]
#[kani::unwind(14)]
fn scan_week_day_name_bounded() {
    let bytes: [u8; 10] = kani::any();
    let len: usize = kani::any();
    kani::assume(len <= 10);
    let abbr: bool = kani::any();
    let input = &bytes[..len];
    let r = parse_week_day_name(input, if abbr { NameStyle::AbbrCapital } else { NameStyle::Upper });
    let mut want: Option<(usize, usize)> = None;
    let mut i = 0;
    while i < 7 {
        let pat: &[u8] = if abbr { &REF_DAYS[i][..3] } else { REF_DAYS[i] };
        if want.is_none() && ci(input, pat) {
            want = Some((i + 1, pat.len()));
        }
        i += 1;
    }
    match want {
        Some((d, n)) => {
            assert!(r.is_ok());
            let (wd, rem) = r.unwrap();
            assert!(wd as usize == d);
            assert!(rem.len() == len - n);
        }
        None => assert!(r.is_err()),
    }
}

// =========================================================================================
// C04: per-token rendering for every field record of every type
// =========================================================================================
/// a value that converts into an arbitrary (symbolic) field record and carries the type flags of the real type T;
/// the six real `From<T> for NaiveDateTime` impls are proved in Verus to produce exactly such records
#[derive(Clone, Copy)]
pub struct Probe<T: DateTimeFormat> {
    pub year: i32,
    pub month: u32,
    pub day: u32,
    pub hour: u32,
    pub minute: u32,
    pub sec: u32,
    pub usec: u32,
    pub negative: bool,
    pub date: Option<Date>,
    pub _t: core::marker::PhantomData<T>,
}

impl<T: DateTimeFormat> From<Probe<T>> for NaiveDateTime {
    fn from(p: Probe<T>) -> NaiveDateTime {
        NaiveDateTime { year: p.year, month: p.month, day: p.day, hour: p.hour, minute: p.minute, sec: p.sec, usec: p.usec, ampm: None, negative: p.negative }
    }
}

/// parsing into a Probe returns the field record the parser built (the value conversion is the Verus half)
pub struct Parsed {
    pub dt: NaiveDateTime,
}

impl<T: DateTimeFormat> TryFrom<NaiveDateTime> for Probe<T> {
    type Error = Error;
    fn try_from(dt: NaiveDateTime) -> Result<Self> {
        Ok(Probe { year: dt.year, month: dt.month, day: dt.day, hour: dt.hour, minute: dt.minute, sec: dt.sec, usec: dt.usec,
                   negative: dt.negative, date: None, _t: core::marker::PhantomData })
    }
}

impl<T: DateTimeFormat> DateTime for Probe<T> {
    fn year(&self) -> Option<i32> { None }
    fn month(&self) -> Option<i32> { None }
    fn day(&self) -> Option<i32> { None }
    fn hour(&self) -> Option<i32> { None }
    fn minute(&self) -> Option<i32> { None }
    fn second(&self) -> Option<f64> { None }
    fn date(&self) -> Option<Date> { self.date }
}

impl<T: DateTimeFormat> DateTimeFormat for Probe<T> {
    const YEAR_MAX_LENGTH: usize = T::YEAR_MAX_LENGTH;
    const MONTH_MAX_LENGTH: usize = T::MONTH_MAX_LENGTH;
    const DAY_MAX_LENGTH: usize = T::DAY_MAX_LENGTH;
    const HOUR_MAX_LENGTH: usize = T::HOUR_MAX_LENGTH;
    const MINUTE_MAX_LENGTH: usize = T::MINUTE_MAX_LENGTH;
    const SECOND_MAX_LENGTH: usize = T::SECOND_MAX_LENGTH;
    const DAY_OF_YEAR_MAX_LENGTH: usize = T::DAY_OF_YEAR_MAX_LENGTH;
    const HAS_DATE: bool = T::HAS_DATE;
    const HAS_TIME: bool = T::HAS_TIME;
    const HAS_FRACTION: bool = T::HAS_FRACTION;
    const IS_INTERVAL_YM: bool = T::IS_INTERVAL_YM;
    const IS_INTERVAL_DT: bool = T::IS_INTERVAL_DT;
}

/// the field records the six From<T> impls can produce (ranges proved in Verus)
fn any_probe<T: DateTimeFormat>() -> Probe<T> {
    let p = Probe::<T> { year: kani::any(), month: kani::any(), day: kani::any(), hour: kani::any(), minute: kani::any(), sec: kani::any(),
                         usec: kani::any(), negative: kani::any(), date: None, _t: core::marker::PhantomData };
    kani::assume(p.hour < 24 && p.minute < 60 && p.sec < 60 && p.usec < 1_000_000);
    if T::HAS_DATE {
        kani::assume(k_date_ok(p.year as i64, p.month as i64, p.day as i64));
        kani::assume(!p.negative);
    } else if T::IS_INTERVAL_YM {
        kani::assume(p.year >= 0 && p.year <= 178_000_000 && p.month < 12);
    } else if T::IS_INTERVAL_DT {
        kani::assume(p.day <= 100_000_000);
    }
    p
}

fn one_field(f: Field) -> Formatter {
    let mut fields = StackVec::new();
    fields.push(f);
    Formatter { fields, format_exact: false }
}

/// `NaiveDateTime::fraction` replaced by its contract (discharged by the naive_fraction_p* obligations)
pub fn fraction_by_contract(dt: &NaiveDateTime, p: u8) -> u32 {
    assert!(p >= 1 && p <= 9);
    let mut v = dt.usec;
    let mut k = 6u8;
    while k > p { v /= 10; k -= 1; }
    while k < p { v *= 10; k += 1; }
    v
}

fn pow10_6_minus(p: u8) -> u32 {
    match p { 1 => 100_000, 2 => 10_000, 3 => 1000, 4 => 100, 5 => 10, _ => 1 }
}

fn fraction_direct(p: u8) {
    let mut dt = NaiveDateTime::new();
    dt.usec = kani::any();
    kani::assume(dt.usec < 1_000_000);
    let r = dt.fraction(p);
    if p <= 6 {
        assert!(r == dt.usec / pow10_6_minus(p));
    } else {
        assert!(r == dt.usec * match p { 7 => 10, 8 => 100, _ => 1000 });
    }
}

#[kani::proof]
fn naive_fraction_p1_to_p6() {
    fraction_direct(1);
    fraction_direct(2);
    fraction_direct(3);
    fraction_direct(4);
    fraction_direct(5);
    fraction_direct(6);
}

#[kani::proof]
fn naive_fraction_p7() { fraction_direct(7); }
#[kani::proof]
fn naive_fraction_p8() { fraction_direct(8); }
#[kani::proof]
fn naive_fraction_p9() { fraction_direct(9); }

fn any_style() -> NameStyle {
    let k: u8 = kani::any();
    kani::assume(k < 6);
    match k { 0 => NameStyle::Capital, 1 => NameStyle::Lower, 2 => NameStyle::Upper, 3 => NameStyle::AbbrCapital, 4 => NameStyle::AbbrLower, _ => NameStyle::AbbrUpper }
}

fn any_ampm_style() -> AmPmStyle {
    let k: u8 = kani::any();
    kani::assume(k < 4);
    match k { 0 => AmPmStyle::Upper, 1 => AmPmStyle::Lower, 2 => AmPmStyle::UpperDot, _ => AmPmStyle::LowerDot }
}

/// any single picture token (blank runs up to 3)
fn any_field() -> Field {
    let k: u8 = kani::any();
    kani::assume(k < 24);
    match k {
        0 => { let n: u8 = kani::any(); kani::assume(n >= 1 && n <= 3); Field::Blank(n) }
        1 => Field::Hyphen, 2 => Field::Colon, 3 => Field::Slash, 4 => Field::Backslash, 5 => Field::Comma, 6 => Field::Dot, 7 => Field::Semicolon, 8 => Field::T,
        9 => { let n: u8 = kani::any(); kani::assume(n >= 1 && n <= 4); Field::Year(n) }
        10 => Field::Month, 11 => Field::Day, 12 => Field::DayName(any_style()), 13 => Field::MonthName(any_style()),
        14 => Field::Hour24, 15 => Field::Hour12, 16 => Field::Minute, 17 => Field::Second,
        18 => { if kani::any() { Field::Fraction(None) } else { let p: u8 = kani::any(); kani::assume(p >= 1 && p <= 9); Field::Fraction(Some(p)) } }
        19 => Field::AmPm(any_ampm_style()), 20 => Field::DayOfWeek, 21 => Field::DayOfYear, 22 => Field::WeekOfMonth, _ => Field::WeekOfYear,
    }
}

const EXPN: usize = 16;

fn put(out: &mut [u8; EXPN], at: usize, s: &[u8]) -> usize {
    let mut i = 0;
    while i < s.len() { out[at + i] = s[i]; i += 1; }
    at + s.len()
}

fn put_digits(out: &mut [u8; EXPN], at: usize, mut v: u32, width: usize) -> usize {
    // at least `width` digits, zero padded
    let mut tmp = [0u8; 10];
    let mut n = 0;
    loop {
        tmp[n] = b'0' + (v % 10) as u8;
        v /= 10;
        n += 1;
        if v == 0 { break; }
    }
    let total = if n < width { width } else { n };
    let mut i = 0;
    while i < total {
        out[at + i] = if total - 1 - i < n { tmp[total - 1 - i] } else { b'0' };
        i += 1;
    }
    at + total
}

fn put_name(out: &mut [u8; EXPN], at: usize, name: &[u8], style: NameStyle) -> usize {
    let (abbr, upper, lower_all) = match style {
        NameStyle::Capital => (false, false, false),
        NameStyle::Lower => (false, false, true),
        NameStyle::Upper => (false, true, false),
        NameStyle::AbbrCapital => (true, false, false),
        NameStyle::AbbrLower => (true, false, true),
        NameStyle::AbbrUpper => (true, true, false),
    };
    let n = if abbr { 3 } else { name.len() };
    let mut i = 0;
    while i < n {
        let c = name[i];
        out[at + i] = if upper || (i == 0 && !lower_all) { c - 32 } else { c };
        i += 1;
    }
    at + n
}

fn h12(h: u32) -> u32 {
    if h % 12 == 0 { 12 } else { h % 12 }
}

/// the rendering of one token, written from the property statement; None = the token does not apply to the type
fn render_ref<T: DateTimeFormat>(f: &Field, p: &Probe<T>, out: &mut [u8; EXPN], at: usize) -> Option<usize> {
    let date = T::HAS_DATE;
    let time = T::HAS_TIME;
    let ym = T::IS_INTERVAL_YM;
    let dtv = T::IS_INTERVAL_DT;
    match f {
        Field::Invalid => None,
        Field::Blank(n) => { let mut e = at; let mut i = 0; while i < *n { out[e] = b' '; e += 1; i += 1; } Some(e) }
        Field::Hyphen => Some(put(out, at, b"-")),
        Field::Colon => Some(put(out, at, b":")),
        Field::Slash => Some(put(out, at, b"/")),
        Field::Backslash => Some(put(out, at, b"\\")),
        Field::Comma => Some(put(out, at, b",")),
        Field::Dot => Some(put(out, at, b".")),
        Field::Semicolon => Some(put(out, at, b";")),
        Field::T => Some(put(out, at, b"T")),
        Field::Year(n) => {
            if date {
                let modulus: u32 = match n { 1 => 10, 2 => 100, 3 => 1000, _ => 10000 };
                Some(put_digits(out, at, p.year as u32 % modulus, *n as usize))
            } else if ym { Some(put_digits(out, at, p.year as u32, *n as usize)) } else { None }
        }
        Field::Month => if date || ym { Some(put_digits(out, at, p.month, 2)) } else { None },
        Field::Day => if date || dtv { Some(put_digits(out, at, p.day, 2)) } else { None },
        Field::Hour24 => if time { Some(put_digits(out, at, p.hour, 2)) } else { None },
        Field::Hour12 => if time && !dtv { Some(put_digits(out, at, h12(p.hour), 2)) } else { None },
        Field::Minute => if time { Some(put_digits(out, at, p.minute, 2)) } else { None },
        Field::Second => if time { Some(put_digits(out, at, p.sec, 2)) } else { None },
        Field::Fraction(q) => {
            if T::HAS_FRACTION {
                let digits = q.unwrap_or(6);
                let mut v = p.usec;       // truncated, not rounded
                let mut k = 6u8;
                while k > digits { v /= 10; k -= 1; }
                while k < digits { v *= 10; k += 1; }
                Some(put_digits(out, at, v, digits as usize))
            } else { None }
        }
        Field::AmPm(st) => {
            if time && !dtv {
                let am = p.hour < 12;
                Some(put(out, at, match (st, am) {
                    (AmPmStyle::Upper, true) => b"AM", (AmPmStyle::Upper, false) => b"PM",
                    (AmPmStyle::Lower, true) => b"am", (AmPmStyle::Lower, false) => b"pm",
                    (AmPmStyle::UpperDot, true) => b"A.M.", (AmPmStyle::UpperDot, false) => b"P.M.",
                    (AmPmStyle::LowerDot, true) => b"a.m.", (AmPmStyle::LowerDot, false) => b"p.m.",
                }))
            } else { None }
        }
        Field::MonthName(st) => if date { Some(put_name(out, at, REF_MONTHS[p.month as usize - 1], *st)) } else { None },
        Field::DayName(st) => {
            if date { let wd = k_wd(k_dn(p.year as i64, p.month as i64, p.day as i64)); Some(put_name(out, at, REF_DAYS[wd as usize - 1], *st)) } else { None }
        }
        Field::DayOfWeek => {
            if date { let wd = k_wd(k_dn(p.year as i64, p.month as i64, p.day as i64)); out[at] = b'0' + wd as u8; Some(at + 1) } else { None }
        }
        Field::DayOfYear => {
            if date { let doy = k_cum(p.month as i64) + (if p.month > 2 && k_leap(p.year as i64) { 1 } else { 0 }) + p.day as i64; Some(put_digits(out, at, doy as u32, 3)) } else { None }
        }
        Field::WeekOfMonth => if date { out[at] = b'0' + ((p.day - 1) / 7 + 1) as u8; Some(at + 1) } else { None },
        Field::WeekOfYear => {
            if date { let doy = k_cum(p.month as i64) + (if p.month > 2 && k_leap(p.year as i64) { 1 } else { 0 }) + p.day as i64; Some(put_digits(out, at, (doy as u32 - 1) / 7 + 1, 2)) } else { None }
        }
    }
}

// ---- modular decomposition of the renderer --------------------------------------------------------------
// (1) every table-lookup helper is checked against arithmetic for EVERY index it can receive (exhaustive, concrete loops);
// (2) Formatter::format is checked with those helpers replaced by markers: which helper a token calls, for which
//     types, the sign prefix, and the directly computed tokens (year, fraction, blanks, punctuation).

fn two_digits(v: u32) -> [u8; 2] {
    [b'0' + (v / 10 % 10) as u8, b'0' + (v % 10) as u8]
}

#[kani::proof]
#[kani::unwind(64)]
fn tables_two_digit_exhaustive() {
    let mut dt = NaiveDateTime::new();
    let mut v = 0u32;
    while v <= 60 {
        let e = two_digits(v);
        if v <= 12 { dt.month = v; assert!(dt.month_str().as_bytes() == &e); }
        if v <= 31 {
            dt.day = v;
            assert!(dt.day_str().as_bytes() == &e);
            if v >= 1 { assert!(dt.week_of_month_str().as_bytes() == &[b'0' + ((v - 1) / 7 + 1) as u8]); }
        }
        if v <= 23 {
            dt.hour = v;
            assert!(dt.hour24_str().as_bytes() == &e);
            assert!(dt.hour12_str().as_bytes() == &two_digits(h12(v)));
            assert!(dt.hour12() == h12(v));
        }
        if v <= 59 {
            dt.minute = v;
            dt.sec = v;
            assert!(dt.minute_str().as_bytes() == &e);
            assert!(dt.second_str().as_bytes() == &e);
        }
        v += 1;
    }
}

fn style_of(k: u8) -> NameStyle {
    match k { 0 => NameStyle::Capital, 1 => NameStyle::Lower, 2 => NameStyle::Upper, 3 => NameStyle::AbbrCapital, 4 => NameStyle::AbbrLower, _ => NameStyle::AbbrUpper }
}

#[kani::proof]
#[kani::unwind(26)]
fn tables_names_exhaustive() {
    let mut k = 0u8;
    while k < 6 {
        let st = style_of(k);
        let mut m = 1usize;
        while m <= 12 {
            let mut dt = NaiveDateTime::new();
            dt.month = m as u32;
            let mut exp = [0u8; EXPN];
            let n = put_name(&mut exp, 0, REF_MONTHS[m - 1], st);
            assert!(dt.month_name(st).as_bytes() == &exp[..n]);
            if m <= 7 {
                let mut e2 = [0u8; EXPN];
                let n2 = put_name(&mut e2, 0, REF_DAYS[m - 1], st);
                assert!(WeekDay::from(m).name(st).as_bytes() == &e2[..n2]);
                assert!(WeekDay::from(m).num_str().as_bytes() == &[b'0' + m as u8]);
            }
            m += 1;
        }
        k += 1;
    }
    let mut h = 0u32;
    while h < 24 {
        assert!(AmPmStyle::Upper.format(h).as_bytes() == if h < 12 { b"AM" } else { b"PM" });
        assert!(AmPmStyle::Lower.format(h).as_bytes() == if h < 12 { b"am" } else { b"pm" });
        h += 1;
    }
    h = 0;
    while h < 24 {
        assert!(AmPmStyle::UpperDot.format(h).as_bytes() == if h < 12 { b"A.M." } else { b"P.M." });
        assert!(AmPmStyle::LowerDot.format(h).as_bytes() == if h < 12 { b"a.m." } else { b"p.m." });
        h += 1;
    }
}

/// DDD and WW for every (leap?, month, day): three-digit day of year; weeks in 7-day blocks from 1 January
#[kani::proof]
#[kani::unwind(5)]
fn tables_day_of_year_exhaustive() {
    let leap: bool = kani::any();
    let year: i64 = if leap { 2024 } else { 2023 };
    let m: u32 = kani::any();
    let d: u32 = kani::any();
    kani::assume(m >= 1 && m <= 12 && d >= 1 && d as i64 <= k_mdays(year, m as i64));
    let mut dt = NaiveDateTime::new();
    dt.year = year as i32;
    dt.month = m;
    dt.day = d;
    let doy = (k_cum(m as i64) + (if m > 2 && leap { 1 } else { 0 })) as u32 + d;
    let e = [b'0' + (doy / 100) as u8, b'0' + (doy / 10 % 10) as u8, b'0' + (doy % 10) as u8];
    let s1 = dt.day_of_year_str().as_bytes();
    assert!(s1.len() == 3 && s1[0] == e[0] && s1[1] == e[1] && s1[2] == e[2]);
    let w = two_digits((doy - 1) / 7 + 1);
    let s2 = dt.week_of_year_str().as_bytes();
    assert!(s2.len() == 2 && s2[0] == w[0] && s2[1] == w[1]);
}

/// the_day_of_year depends on the year only through leapness (so two years cover the table harness above)
#[kani::proof]
fn day_of_year_depends_on_leapness() {
    let y: i32 = kani::any();
    kani::assume(y >= 1 && y <= 9999);
    let m: u32 = kani::any();
    let d: u32 = kani::any();
    kani::assume(m >= 1 && m <= 12 && d >= 1 && d <= 31);
    let r = the_day_of_year(y, m, d);
    let r2 = the_day_of_year(if k_leap(y as i64) { 2024 } else { 2023 }, m, d);
    assert!(r == r2);
}

/// weekday name / number of a field record: the weekday of its date (given, or recomputed from the fields)
#[kani::proof]
#[kani::unwind(14)]
#[kani::stub(crate::util::try_format, stub_try_format)]
#[kani::stub(<str as crate::util::StrExt>::try_to_string, stub_try_to_string)]
#[kani::stub(crate::common::date2julian, crate::kverif::date2julian_by_contract)]
fn week_day_name_contract() {
    let p = any_probe::<Date>();
    let n = k_dn(p.year as i64, p.month as i64, p.day as i64);
    let given = if kani::any() { Some(Date::try_from_days(n as i32).unwrap()) } else { None };
    let dt: NaiveDateTime = p.into();
    let st = any_style();
    let wd = k_wd(n);
    let mut exp = [0u8; EXPN];
    let k = put_name(&mut exp, 0, REF_DAYS[wd as usize - 1], st);
    let r = dt.week_day_name(given, st);
    assert!(r.is_ok() && r.unwrap().as_bytes() == &exp[..k]);
    let r2 = dt.day_of_week_str(given);
    assert!(r2.is_ok() && r2.unwrap().as_bytes() == &[b'0' + wd as u8]);
}

/// write_u32(value, width): the decimal digits of value, zero-padded on the left to at least `width`
fn write_u32_check(limit: u32) {
    let v: u32 = kani::any();
    kani::assume(v <= limit);
    let width: usize = kani::any();
    kani::assume(width >= 1 && width <= 10);
    let mut w = Sink::new();
    assert!(write_u32(&mut w, v, width).is_ok());
    let mut exp = [0u8; EXPN];
    let n = put_digits(&mut exp, 0, v, width);
    assert!(w.eq_bytes(&exp[..n]));
}

#[kani::proof]
#[kani::unwind(13)]
#[kani::stub(crate::util::try_format, stub_try_format)]
fn write_u32_contract() { write_u32_check(u32::MAX); }

#[kani::proof]
#[kani::unwind(13)]
#[kani::stub(crate::util::try_format, stub_try_format)]
fn write_u32_small_bounded() { write_u32_check(99_999); }

pub static mut K_WU_VALUE: u32 = 0;
pub static mut K_WU_WIDTH: usize = 0;
pub static mut K_WU_CALLS: u32 = 0;
/// `write_u32` replaced by "records (value, width), writes the marker 'u'" (contract: write_u32_contract)
pub fn write_u32_probe<W: fmt::Write>(mut w: W, value: u32, width: usize) -> Result<()> {
    unsafe { K_WU_VALUE = value; K_WU_WIDTH = width; K_WU_CALLS += 1; }
    w.write_str("u")?;
    Ok(())
}

// markers standing for "the text returned by helper X" in the glue obligation; each marker asserts the index range for
// which the helper was checked (its precondition), so a caller that can pass a larger index fails here
pub fn mk_month_str(dt: &NaiveDateTime) -> &str { assert!(dt.month <= 12); "a" }
pub fn mk_day_str(dt: &NaiveDateTime) -> &str { assert!(dt.day <= 31); "b" }
pub fn mk_hour24_str(dt: &NaiveDateTime) -> &str { assert!(dt.hour <= 23); "c" }
pub fn mk_hour12_str(dt: &NaiveDateTime) -> &str { assert!(dt.hour <= 23); "d" }
pub fn mk_minute_str(dt: &NaiveDateTime) -> &str { assert!(dt.minute <= 59); "e" }
pub fn mk_second_str(dt: &NaiveDateTime) -> &str { assert!(dt.sec <= 59); "f" }
pub fn mk_month_name(dt: &NaiveDateTime, _style: NameStyle) -> &str { assert!(dt.month >= 1 && dt.month <= 12); "g" }
pub fn mk_week_day_name(_dt: &NaiveDateTime, _date: Option<Date>, _style: NameStyle) -> Result<&str> { Ok("h") }
pub fn mk_day_of_week_str(_dt: &NaiveDateTime, _date: Option<Date>) -> Result<&str> { Ok("i") }
pub fn mk_day_of_year_str(dt: &NaiveDateTime) -> &str { assert!(dt.month >= 1 && dt.month <= 12 && dt.day >= 1 && dt.day <= 31); "j" }
pub fn mk_week_of_month_str(dt: &NaiveDateTime) -> &str { assert!(dt.day >= 1 && dt.day <= 31); "k" }
pub fn mk_week_of_year_str(dt: &NaiveDateTime) -> &str { assert!(dt.month >= 1 && dt.month <= 12 && dt.day >= 1 && dt.day <= 31); "l" }
pub fn mk_ampm_format(_s: &AmPmStyle, hour: u32) -> &str { assert!(hour <= 23); "n" }

/// which helper a token uses, or None where the token does not apply to the type; directly computed tokens render in full
fn glue_ref<T: DateTimeFormat>(f: &Field, p: &Probe<T>, out: &mut [u8; EXPN], at: usize) -> Option<usize> {
    let date = T::HAS_DATE;
    let time = T::HAS_TIME;
    let ym = T::IS_INTERVAL_YM;
    let dtv = T::IS_INTERVAL_DT;
    let mark = |out: &mut [u8; EXPN], c: u8| { out[at] = c; Some(at + 1) };
    match f {
        Field::Month => if date || ym { mark(out, b'a') } else { None },
        Field::Day => if date { mark(out, b'b') } else if dtv { if p.day < 32 { mark(out, b'b') } else { Some(put_digits(out, at, p.day, 1)) } } else { None },
        Field::Hour24 => if time { mark(out, b'c') } else { None },
        Field::Hour12 => if time && !dtv { mark(out, b'd') } else { None },
        Field::Minute => if time { mark(out, b'e') } else { None },
        Field::Second => if time { mark(out, b'f') } else { None },
        Field::MonthName(_) => if date { mark(out, b'g') } else { None },
        Field::DayName(_) => if date { mark(out, b'h') } else { None },
        Field::DayOfWeek => if date { mark(out, b'i') } else { None },
        Field::DayOfYear => if date { mark(out, b'j') } else { None },
        Field::WeekOfMonth => if date { mark(out, b'k') } else { None },
        Field::WeekOfYear => if date { mark(out, b'l') } else { None },
        Field::AmPm(_) => if time && !dtv { mark(out, b'n') } else { None },
        Field::Year(_) => if date || ym { mark(out, b'u') } else { None },
        Field::Fraction(_) => if T::HAS_FRACTION { mark(out, b'u') } else { None },
        _ => render_ref::<T>(f, p, out, at),
    }
}

/// the number handed to write_u32 by the year / fraction tokens
fn glue_number<T: DateTimeFormat>(f: &Field, p: &Probe<T>) -> Option<(u32, usize)> {
    match f {
        Field::Year(n) => {
            if T::HAS_DATE { let modulus: u32 = match n { 1 => 10, 2 => 100, 3 => 1000, _ => 10000 }; Some((p.year as u32 % modulus, *n as usize)) }
            else if T::IS_INTERVAL_YM { Some((p.year as u32, *n as usize)) } else { None }
        }
        Field::Fraction(q) => {
            if T::HAS_FRACTION {
                let digits = q.unwrap_or(6);
                let mut v = p.usec;
                let mut k = 6u8;
                while k > digits { v /= 10; k -= 1; }
                while k < digits { v *= 10; k += 1; }
                Some((v, digits as usize))
            } else { None }
        }
        _ => None,
    }
}

fn glue_check<T: DateTimeFormat>() {
    let mut p = any_probe::<T>();
    if T::IS_INTERVAL_DT { kani::assume(p.day < 1000); }
    let f = any_field();
    unsafe { K_WU_CALLS = 0; }
    let mut exp = [0u8; EXPN];
    let mut at = 0;
    if p.negative { exp[0] = b'-'; at = 1; } else if T::IS_INTERVAL_YM || T::IS_INTERVAL_DT { exp[0] = b'+'; at = 1; }
    let want = glue_ref::<T>(&f, &p, &mut exp, at);
    let num = glue_number::<T>(&f, &p);
    let fmt = one_field(f);
    let mut w = Sink::new();
    let r = fmt.format(p, &mut w);
    match want {
        Some(n) => { assert!(r.is_ok()); assert!(w.eq_bytes(&exp[..n])); }
        None => assert!(r.is_err()),
    }
    match num {
        Some((v, width)) => assert!(unsafe { K_WU_CALLS } == 1 && unsafe { K_WU_VALUE } == v && unsafe { K_WU_WIDTH } == width),
        None => assert!(unsafe { K_WU_CALLS } == 0 || T::IS_INTERVAL_DT),
    }
}

macro_rules! glue_harness {
    ($name:ident, $t:ty) => {
        #[kani::proof]
        #[kani::unwind(13)]
        #[kani::stub(crate::util::try_format, stub_try_format)]
        #[kani::stub(<str as crate::util::StrExt>::try_to_string, stub_try_to_string)]
        #[kani::stub(NaiveDateTime::fraction, fraction_by_contract)]
        #[kani::stub(NaiveDateTime::month_str, mk_month_str)]
        #[kani::stub(NaiveDateTime::day_str, mk_day_str)]
        #[kani::stub(NaiveDateTime::hour24_str, mk_hour24_str)]
        #[kani::stub(NaiveDateTime::hour12_str, mk_hour12_str)]
        #[kani::stub(NaiveDateTime::minute_str, mk_minute_str)]
        #[kani::stub(NaiveDateTime::second_str, mk_second_str)]
        #[kani::stub(NaiveDateTime::month_name, mk_month_name)]
        #[kani::stub(NaiveDateTime::week_day_name, mk_week_day_name)]
        #[kani::stub(NaiveDateTime::day_of_week_str, mk_day_of_week_str)]
        #[kani::stub(NaiveDateTime::day_of_year_str, mk_day_of_year_str)]
        #[kani::stub(NaiveDateTime::week_of_month_str, mk_week_of_month_str)]
        #[kani::stub(NaiveDateTime::week_of_year_str, mk_week_of_year_str)]
        #[kani::stub(AmPmStyle::format, mk_ampm_format)]
        #[kani::stub(write_u32, write_u32_probe)]
        fn $name() { glue_check::<$t>(); }
    };
}
glue_harness!(fmt_glue_date, Date);
glue_harness!(fmt_glue_time, Time);
glue_harness!(fmt_glue_timestamp, Timestamp);
glue_harness!(fmt_glue_interval_ym, IntervalYM);
glue_harness!(fmt_glue_interval_dt_bounded, IntervalDT);
glue_harness!(fmt_glue_oracle_date, crate::oracle::Date);

/// EVERY token on EVERY field record of one type, end to end (no helper stubbed): thorough tier
/// EVERY token on EVERY field record of one type: the text written is the reference rendering, prefixed once by the interval sign;
/// a token that does not apply to the type is an error
fn token_check<T: DateTimeFormat>(small_interval_day: bool) {
    let mut p = any_probe::<T>();
    if T::IS_INTERVAL_DT && small_interval_day {
        kani::assume(p.day < 1000);
    }
    if T::HAS_DATE && kani::any() {
        // the weekday tokens use date() when the type provides it
        p.date = Some(Date::try_from_days(k_dn(p.year as i64, p.month as i64, p.day as i64) as i32).unwrap());
    }
    let f = any_field();
    let mut exp = [0u8; EXPN];
    let mut at = 0;
    if p.negative { exp[0] = b'-'; at = 1; } else if T::IS_INTERVAL_YM || T::IS_INTERVAL_DT { exp[0] = b'+'; at = 1; }
    let want = render_ref::<T>(&f, &p, &mut exp, at);
    let fmt = one_field(f);
    let mut w = Sink::new();
    let r = fmt.format(p, &mut w);
    match want {
        Some(n) => { assert!(r.is_ok()); assert!(w.eq_bytes(&exp[..n])); }
        None => assert!(r.is_err()),
    }
}

macro_rules! token_harness {
    ($name:ident, $t:ty) => {
        #[kani::proof]
        #[kani::unwind(13)]
        #[kani::stub(crate::util::try_format, stub_try_format)]
        #[kani::stub(<str as crate::util::StrExt>::try_to_string, stub_try_to_string)]
        #[kani::stub(crate::common::date2julian, crate::kverif::date2julian_by_contract)]
        #[kani::stub(NaiveDateTime::fraction, fraction_by_contract)]
        fn $name() { token_check::<$t>(true); }
    };
}
token_harness!(fmt_tokens_date, Date);
token_harness!(fmt_tokens_time, Time);
token_harness!(fmt_tokens_timestamp, Timestamp);
token_harness!(fmt_tokens_interval_ym, IntervalYM);
token_harness!(fmt_tokens_interval_dt_bounded, IntervalDT);
token_harness!(fmt_tokens_oracle_date, crate::oracle::Date);

/// two tokens: the output is the concatenation of the two renderings, the sign written once
#[kani::proof]
#[kani::unwind(13)]
#[kani::stub(crate::util::try_format, stub_try_format)]
#[kani::stub(<str as crate::util::StrExt>::try_to_string, stub_try_to_string)]
#[kani::stub(crate::common::date2julian, crate::kverif::date2julian_by_contract)]
#[kani::stub(NaiveDateTime::fraction, fraction_by_contract)]
fn fmt_two_tokens_timestamp_bounded() {
    let p = any_probe::<Timestamp>();
    let f1 = any_field();
    let f2 = any_field();
    let mut exp = [0u8; EXPN];
    let mut tmp = [0u8; EXPN];
    let a = render_ref::<Timestamp>(&f1, &p, &mut exp, 0);
    let mut fields = StackVec::new();
    fields.push(f1);
    let b = match a { Some(n) if n <= 6 => render_ref::<Timestamp>(&f2, &p, &mut exp, n), _ => None };
    kani::assume(a.is_some() && a.unwrap() <= 6);
    fields.push(f2);
    let fmt = Formatter { fields, format_exact: false };
    let mut w = Sink::new();
    let r = fmt.format(p, &mut w);
    match b {
        Some(n) => { assert!(r.is_ok()); assert!(w.eq_bytes(&exp[..n])); }
        None => assert!(r.is_err()),
    }
}

// =========================================================================================
// C05 / C18: parsing one field.  The parser is run on Probe<T>, so the result is the field record it
// built (the record -> value conversions TryFrom<NaiveDateTime> are proved in Verus); the clock is symbolic.
// =========================================================================================
const TXT: usize = 4;

fn is_ws(b: u8) -> bool {
    b == b' ' || b == b'\t' || b == b'\n' || b == 0x0c || b == b'\r'
}

fn skip_ws(s: &[u8]) -> &[u8] {
    let mut i = 0;
    while i < s.len() && is_ws(s[i]) { i += 1; }
    &s[i..]
}

/// reference number scanner: optional sign, 1..=max digits (maximal munch)
fn ref_number(s: &[u8], max: usize) -> Option<(bool, i64, usize)> {
    if s.is_empty() { return None; }
    let signed = s[0] == b'+' || s[0] == b'-';
    let st = if signed { 1 } else { 0 };
    let mut k = 0;
    let mut v: i64 = 0;
    while st + k < s.len() && k < max && is_digit(s[st + k]) {
        v = v * 10 + (s[st + k] - b'0') as i64;
        k += 1;
    }
    if k == 0 { return None; }
    let neg = s[0] == b'-';
    Some((neg, if neg { -v } else { v }, st + k))
}

fn ref_month_name(s: &[u8]) -> Option<(u32, usize)> {
    let mut i = 0;
    while i < 12 { if ci(s, REF_MONTHS[i]) { return Some((i as u32 + 1, REF_MONTHS[i].len())); } i += 1; }
    i = 0;
    while i < 12 { if ci(s, &REF_MONTHS[i][..3]) { return Some((i as u32 + 1, 3)); } i += 1; }
    None
}

fn ref_day_name(s: &[u8], abbr: bool) -> Option<(u32, usize)> {
    let mut i = 0;
    while i < 7 {
        let pat: &[u8] = if abbr { &REF_DAYS[i][..3] } else { REF_DAYS[i] };
        if ci(s, pat) { return Some((i as u32 + 1, pat.len())); }
        i += 1;
    }
    None
}

#[derive(Clone, Copy)]
struct RefRec { year: i64, month: u32, day: u32, hour: u32, minute: u32, sec: u32, usec: u32, negative: bool }

/// what the text denotes under a one-field picture, for a type with the flags of T, at clock (cy, cm); None = rejected
fn ref_parse_one<T: DateTimeFormat>(f: &Field, text: &[u8], cy: i64, cm: u32) -> Option<RefRec> {
    let date = T::HAS_DATE;
    let time = T::HAS_TIME;
    let ym = T::IS_INTERVAL_YM;
    let dtv = T::IS_INTERVAL_DT;
    let mut r = RefRec { year: 1, month: 0, day: 1, hour: 0, minute: 0, sec: 0, usec: 0, negative: false };
    let mut s = skip_ws(text);
    let mut year_set = false;
    let mut month_set = false;
    let mut day_set = false;
    let mut dow: Option<u32> = None;
    let mut doy: Option<u32> = None;
    match f {
        Field::Invalid => return None,
        Field::Blank(_) => {}
        Field::Hyphen | Field::Colon | Field::Dot => {
            let c = match f { Field::Hyphen => b'-', Field::Colon => b':', _ => b'.' };
            if !s.is_empty() { if s[0] == c { s = &s[1..]; } else { return None; } }
        }
        Field::Slash | Field::Backslash | Field::Comma | Field::Semicolon | Field::T => {
            let c = match f { Field::Slash => b'/', Field::Backslash => b'\\', Field::Comma => b',', Field::Semicolon => b';', _ => b'T' };
            if !s.is_empty() && s[0] == c { s = &s[1..]; } else { return None; }
        }
        Field::Year(n) => {
            if !(date || ym) { return None; }
            let n = *n as usize;
            let (neg, y, used) = if ym { ref_number(s, 9)? } else if n == 2 { ref_number(s, 4)? } else { ref_number(s, n)? };
            // one-, two- and three-digit year fields are completed with the leading digits of the current year
            // (a two-digit field that is given more than two characters is a full year)
            let y = if ym || n == 4 { y } else if n == 2 { if used > 2 { y } else { cy - cy % 100 + y } }
                    else if n == 1 { cy - cy % 10 + y } else { cy - cy % 1000 + y };
            if neg && date { return None; }
            r.negative = neg;
            r.year = y;
            year_set = true;
            s = &s[used..];
        }
        Field::Month => {
            if !(date || ym) { return None; }
            match ref_number(s, 2) {
                Some((neg, m, used)) => { if neg { return None; } r.month = m as u32; s = &s[used..]; }
                None => { let (m, used) = ref_month_name(s)?; r.month = m; s = &s[used..]; }
            }
            month_set = true;
        }
        Field::Day => {
            if !(date || dtv) { return None; }
            let (neg, d, used) = ref_number(s, if dtv { 9 } else { 2 })?;
            if date && neg { return None; }
            r.day = d.unsigned_abs() as u32;
            r.negative = neg;
            day_set = true;
            s = &s[used..];
        }
        Field::Hour24 | Field::Minute | Field::Second => {
            if !time { return None; }
            let v = if !dtv && s.is_empty() { 0 } else { let (neg, v, used) = ref_number(s, 2)?; if neg { return None; } s = &s[used..]; v as u32 };
            match f { Field::Hour24 => r.hour = v, Field::Minute => r.minute = v, _ => r.sec = v }
        }
        Field::Hour12 => {
            if !(time && !dtv) { return None; }
            let v = if s.is_empty() { 12 } else { let (neg, v, used) = ref_number(s, 2)?; if neg { return None; } s = &s[used..]; v };
            if v < 1 || v > 12 { return None; }
            r.hour = v as u32;
        }
        Field::Fraction(p) => {
            if !T::HAS_FRACTION { return None; }
            if !s.is_empty() {
                if s[0] == b'-' { return None; }
                let max = p.unwrap_or(9) as usize;
                let mut k = 0;
                let mut v: u64 = 0;
                while k < s.len() && k < max && is_digit(s[k]) { v = v * 10 + (s[k] - b'0') as u64; k += 1; }
                // scaled to microseconds, rounded half-up beyond six digits
                let mut j = k;
                while j < 6 { v *= 10; j += 1; }
                if k == 7 { v = (v + 5) / 10; } else if k == 8 { v = (v + 50) / 100; } else if k == 9 { v = (v + 500) / 1000; }
                r.usec = v as u32;
                s = &s[k..];
            }
        }
        Field::AmPm(st) => {
            if !(time && !dtv) { return None; }
            if !s.is_empty() {
                let dotted = *st == AmPmStyle::UpperDot || *st == AmPmStyle::LowerDot;
                let (am, pm, n) = if dotted { (ci(s, b"a.m."), ci(s, b"p.m."), 4) } else { (ci(s, b"am"), ci(s, b"pm"), 2) };
                if !(am || pm) { return None; }
                // meridian applied to the default hour 0: AM keeps 0, PM gives 12
                if pm { r.hour = 12; }
                s = &s[n..];
            }
        }
        Field::MonthName(_) => {
            if !date { return None; }
            let (m, used) = ref_month_name(s)?;
            r.month = m;
            month_set = true;
            s = &s[used..];
        }
        Field::DayName(st) => {
            if !date { return None; }
            let abbr = matches!(st, NameStyle::AbbrCapital | NameStyle::AbbrLower | NameStyle::AbbrUpper);
            let (d, used) = ref_day_name(s, abbr)?;
            dow = Some(d);
            s = &s[used..];
        }
        Field::DayOfWeek => {
            if !date { return None; }
            if s.is_empty() || s[0] < b'1' || s[0] > b'7' { return None; }
            dow = Some((s[0] - b'0') as u32);
            s = &s[1..];
        }
        Field::DayOfYear => {
            if !date { return None; }
            let (neg, d, used) = ref_number(s, 3)?;
            if neg { return None; }
            doy = Some(d as u32);
            s = &s[used..];
        }
        Field::WeekOfMonth | Field::WeekOfYear => return None,   // output-only codes
    }
    s = skip_ws(s);
    if !s.is_empty() { return None; }                             // input text left over
    if date {
        if !year_set { r.year = cy; }
        if !month_set { r.month = cm; }
    }
    if let Some(d) = doy {
        let leap = k_leap(r.year);
        if d == 0 || d > (if leap { 366 } else { 365 }) { return None; }
        // day-of-year -> (month, day)
        let mut m = 1u32;
        while m < 12 && (k_cum(m as i64 + 1) + (if m + 1 > 2 && leap { 1 } else { 0 })) < d as i64 { m += 1; }
        let dd = d as i64 - k_cum(m as i64) - (if m > 2 && leap { 1 } else { 0 });
        if month_set && m != r.month { return None; }
        r.month = m;
        r.day = dd as u32;
    }
    if let Some(w) = dow {
        if !k_date_ok(r.year, r.month as i64, r.day as i64) { return None; }
        if k_wd(k_dn(r.year, r.month as i64, r.day as i64)) != w as i64 { return None; }
    }
    Some(r)
}

fn parse_one_check<T: DateTimeFormat>() {
    let c = crate::kverif::set_any_clock(false);
    let f = any_field();
    let bytes: [u8; TXT] = kani::any();
    let len: usize = kani::any();
    kani::assume(len <= TXT);
    let mut i = 0;
    while i < TXT { kani::assume(bytes[i] < 128); i += 1; }     // ASCII: the parser takes &str
    let text = unsafe { core::str::from_utf8_unchecked(&bytes[..len]) };   // ASCII by assumption
    let want = ref_parse_one::<T>(&f, &bytes[..len], c[0] as i64, c[1]);
    let uses_clock_ok = true;
    let fmt = one_field(f);
    let got: Result<Probe<T>> = fmt.parse_internal::<&str, Probe<T>, false>(text);
    match want {
        None => assert!(got.is_err()),
        Some(r) => {
            assert!(got.is_ok());
            let g = got.unwrap();
            assert!(g.year as i64 == r.year && g.month == r.month && g.day == r.day);
            assert!(g.hour == r.hour && g.minute == r.minute && g.sec == r.sec && g.usec == r.usec);
            assert!(g.negative == r.negative);
        }
    }
}

macro_rules! parse_harness {
    ($name:ident, $t:ty) => {
        #[kani::proof]
        #[kani::unwind(14)]
        #[kani::stub(crate::util::try_format, stub_try_format)]
        #[kani::stub(<str as crate::util::StrExt>::try_to_string, stub_try_to_string)]
        #[kani::stub(crate::common::date2julian, crate::kverif::date2julian_by_contract)]
        #[kani::stub(chrono::Local::now, crate::kverif::stub_now_fixed)]
        #[kani::stub(<chrono::NaiveDateTime as chrono::Datelike>::year, crate::kverif::clock_year)]
        #[kani::stub(<chrono::NaiveDateTime as chrono::Datelike>::month, crate::kverif::clock_month)]
        #[kani::stub(<chrono::NaiveDateTime as chrono::Datelike>::day, crate::kverif::clock_day)]
        fn $name() { parse_one_check::<$t>(); }
    };
}
parse_harness!(parse_one_field_date_bounded, Date);
parse_harness!(parse_one_field_time_bounded, Time);
parse_harness!(parse_one_field_timestamp_bounded, Timestamp);
parse_harness!(parse_one_field_interval_ym_bounded, IntervalYM);
parse_harness!(parse_one_field_interval_dt_bounded, IntervalDT);

// =========================================================================================
// C05 / C06 / C18: the parser's field loop, modularly.  The leaf scanners are replaced by logged oracles that
// return ANY result permitted by their contracts (scan_*_bounded) and consume ANY amount of text, so the text
// length is unbounded here; pictures of up to PICN symbolic tokens; symbolic clock.  The reference replays the
// same scanner results and computes the record the property prescribes.
// =========================================================================================
const PICN: usize = 3;
const LOGN: usize = 16;
const GTXT: usize = 12;

#[derive(Clone, Copy)]
pub struct LogEntry { pub kind: u8, pub arg: usize, pub ok: bool, pub neg: bool, pub val: i64, pub used: usize }
const LOG0: LogEntry = LogEntry { kind: 0, arg: 0, ok: false, neg: false, val: 0, used: 0 };
pub static mut K_LOG: [LogEntry; LOGN] = [LOG0; LOGN];
pub static mut K_LOG_LEN: usize = 0;

fn log_push(e: LogEntry) {
    unsafe {
        if K_LOG_LEN < LOGN { K_LOG[K_LOG_LEN] = e; }
        K_LOG_LEN += 1;
    }
}

fn pow10(n: usize) -> i64 {
    let mut r: i64 = 1;
    let mut i = 0;
    while i < n { r *= 10; i += 1; }
    r
}

fn scan_err<X>() -> Result<X> { Err(Error::InvalidNumber) }

/// contract of parse_number: Err if the input is empty (or has no digit); Ok: a sign and 1..=max_len digits consumed
pub fn parse_number_oracle(input: &[u8], max_len: usize) -> Result<(bool, i32, &[u8])> {
    assert!(max_len >= 1 && max_len <= 9);
    let ok: bool = kani::any();
    let neg: bool = kani::any();
    let val: i32 = kani::any();
    let used: usize = kani::any();
    kani::assume(used >= 1 && used <= max_len + 1 && used <= input.len());
    kani::assume((val as i64) < pow10(max_len) && (val as i64) > -pow10(max_len));
    kani::assume(if neg { val <= 0 } else { val >= 0 });
    kani::assume(!(neg && used < 2));
    let ok = ok && !input.is_empty();
    log_push(LogEntry { kind: 1, arg: max_len, ok, neg, val: val as i64, used });
    if ok { Ok((neg, val, &input[used..])) } else { scan_err() }
}

pub fn parse_fraction_oracle(s: &[u8], max_len: usize) -> Result<(u32, &[u8])> {
    assert!(max_len >= 1 && max_len <= 9);
    if s.is_empty() { return Ok((0, s)); }
    if s[0] == b'-' { return scan_err(); }
    let usec: u32 = kani::any();
    let used: usize = kani::any();
    kani::assume(used <= max_len && used <= s.len());
    kani::assume(usec <= if max_len >= 7 { 1_000_000 } else { 999_999 });
    kani::assume(!(used == 0 && usec != 0));
    log_push(LogEntry { kind: 2, arg: max_len, ok: true, neg: false, val: usec as i64, used });
    Ok((usec, &s[used..]))
}

pub fn parse_ampm_oracle<'a>(s: &'a [u8], style: &'a AmPmStyle) -> Result<(Option<AmPm>, &'a [u8])> {
    if s.is_empty() { return Ok((None, s)); }
    let dotted = *style == AmPmStyle::UpperDot || *style == AmPmStyle::LowerDot;
    let used = if dotted { 4 } else { 2 };
    let ok: bool = kani::any();
    let pm: bool = kani::any();
    let ok = ok && s.len() >= used;
    log_push(LogEntry { kind: 3, arg: used, ok, neg: pm, val: 0, used });
    if ok { Ok((Some(if pm { AmPm::Pm } else { AmPm::Am }), &s[used..])) } else { scan_err() }
}

pub fn parse_month_name_oracle(s: &[u8]) -> Result<(Month, &[u8])> {
    let ok: bool = kani::any();
    let m: usize = kani::any();
    let used: usize = kani::any();
    kani::assume(m >= 1 && m <= 12 && used >= 3 && used <= 9);
    let ok = ok && used <= s.len();
    log_push(LogEntry { kind: 4, arg: 0, ok, neg: false, val: m as i64, used });
    if ok { Ok((Month::from(m), &s[used..])) } else { scan_err() }
}

pub fn parse_week_day_name_oracle(s: &[u8], _style: NameStyle) -> Result<(WeekDay, &[u8])> {
    let ok: bool = kani::any();
    let d: usize = kani::any();
    let used: usize = kani::any();
    kani::assume(d >= 1 && d <= 7 && used >= 3 && used <= 9);
    let ok = ok && used <= s.len();
    log_push(LogEntry { kind: 5, arg: 0, ok, neg: false, val: d as i64, used });
    if ok { Ok((WeekDay::from(d), &s[used..])) } else { scan_err() }
}

pub fn parse_week_day_number_oracle(s: &[u8]) -> Result<(WeekDay, &[u8])> {
    let ok: bool = kani::any();
    let d: usize = kani::any();
    kani::assume(d >= 1 && d <= 7);
    let ok = ok && !s.is_empty();
    log_push(LogEntry { kind: 6, arg: 0, ok, neg: false, val: d as i64, used: 1 });
    if ok { Ok((WeekDay::from(d), &s[1..])) } else { scan_err() }
}

pub fn eat_whitespaces_oracle(s: &[u8]) -> &[u8] {
    let k: usize = kani::any();
    kani::assume(k <= s.len());
    log_push(LogEntry { kind: 7, arg: 0, ok: true, neg: false, val: 0, used: k });
    &s[k..]
}

struct Replay { at: usize, bad: bool }
impl Replay {
    fn next(&mut self, kind: u8) -> LogEntry {
        let n = unsafe { K_LOG_LEN };
        if self.at >= n || self.at >= LOGN { self.bad = true; return LOG0; }
        let e = unsafe { K_LOG[self.at] };
        self.at += 1;
        if e.kind != kind { self.bad = true; }
        e
    }
}

fn adjust12(h: u32, pm: bool) -> u32 {
    if pm { if h == 12 { 12 } else { h + 12 } } else { if h == 12 { 0 } else { h } }
}

/// the parser's state between two picture tokens, as the property sees it: the record built so far, which
/// components the text has supplied, and how much of the text is consumed
#[derive(Clone, Copy)]
pub struct RefState {
    r: RefRec,
    pos: usize,
    year_set: bool, month_set: bool, day_set: bool, min_set: bool, sec_set: bool, frac_set: bool,
    hour_set: Option<bool>,   // Some(true): 24-hour field seen, Some(false): 12-hour field seen
    ampm: Option<bool>,       // Some(pm)
    dow: Option<u32>,
    doy: Option<u32>,
}

const REF_INIT: RefState = RefState {
    r: RefRec { year: 1, month: 0, day: 1, hour: 0, minute: 0, sec: 0, usec: 0, negative: false },
    pos: 0, year_set: false, month_set: false, day_set: false, min_set: false, sec_set: false, frac_set: false,
    hour_set: None, ampm: None, dow: None, doy: None,
};

/// one picture token: false = the text is rejected
fn ref_step<T: DateTimeFormat>(st: &mut RefState, field: &Field, text: &[u8], cy: i64, rp: &mut Replay) -> bool {
    let date = T::HAS_DATE;
    let time = T::HAS_TIME;
    let ym = T::IS_INTERVAL_YM;
    let dtv = T::IS_INTERVAL_DT;
    let len = text.len();
    st.pos += rp.next(7).used;
    let empty = st.pos >= len;
    match field {
        Field::Invalid => return false,
        Field::Blank(_) => {}
        Field::Hyphen | Field::Colon | Field::Dot => {
            let c = match field { Field::Hyphen => b'-', Field::Colon => b':', _ => b'.' };
            if !empty { if text[st.pos] == c { st.pos += 1; } else { return false; } }
        }
        Field::Slash | Field::Backslash | Field::Comma | Field::Semicolon | Field::T => {
            let c = match field { Field::Slash => b'/', Field::Backslash => b'\\', Field::Comma => b',', Field::Semicolon => b';', _ => b'T' };
            if !empty && text[st.pos] == c { st.pos += 1; } else { return false; }
        }
        Field::Year(k) => {
            if !(date || ym) || st.year_set { return false; }
            let k = *k as usize;
            let max = if ym { 9 } else if k == 2 { 4 } else { k };
            let e = rp.next(1);
            if e.arg != max { rp.bad = true; }
            if !e.ok { return false; }
            let y = if ym || k == 4 { e.val } else if k == 2 { if e.used > 2 { e.val } else { cy - cy % 100 + e.val } }
                    else if k == 1 { cy - cy % 10 + e.val } else { cy - cy % 1000 + e.val };
            if e.neg && date { return false; }
            st.r.negative = e.neg;
            st.r.year = y;
            st.year_set = true;
            st.pos += e.used;
        }
        Field::Month => {
            if !(date || ym) || st.month_set { return false; }
            let e = rp.next(1);
            if e.arg != 2 { rp.bad = true; }
            if e.ok {
                if e.neg { return false; }
                st.r.month = e.val as u32;
                st.pos += e.used;
            } else {
                let e2 = rp.next(4);
                if !e2.ok { return false; }
                st.r.month = e2.val as u32;
                st.pos += e2.used;
            }
            st.month_set = true;
        }
        Field::Day => {
            if !(date || dtv) || st.day_set { return false; }
            let e = rp.next(1);
            if e.arg != (if dtv { 9 } else { 2 }) { rp.bad = true; }
            if !e.ok { return false; }
            if date && e.neg { return false; }
            st.r.day = e.val.unsigned_abs() as u32;
            st.r.negative = e.neg;
            st.day_set = true;
            st.pos += e.used;
        }
        Field::Hour24 | Field::Minute | Field::Second => {
            if !time { return false; }
            let dup = match field { Field::Hour24 => st.hour_set.is_some(), Field::Minute => st.min_set, _ => st.sec_set };
            if dup { return false; }
            if let Field::Hour24 = field { if st.ampm.is_some() { return false; } }
            let v = if !dtv && empty { 0 } else {
                let e = rp.next(1);
                if e.arg != 2 { rp.bad = true; }
                if !e.ok || e.neg { return false; }
                st.pos += e.used;
                e.val as u32
            };
            match field { Field::Hour24 => { st.r.hour = v; st.hour_set = Some(true); } Field::Minute => { st.r.minute = v; st.min_set = true; } _ => { st.r.sec = v; st.sec_set = true; } }
        }
        Field::Hour12 => {
            if !(time && !dtv) || st.hour_set.is_some() { return false; }
            let v = if empty { 12 } else {
                let e = rp.next(1);
                if e.arg != 2 { rp.bad = true; }
                if !e.ok || e.neg { return false; }
                st.pos += e.used;
                e.val
            };
            if v < 1 || v > 12 { return false; }
            st.r.hour = match st.ampm { Some(pm) => adjust12(v as u32, pm), None => v as u32 };
            st.hour_set = Some(false);
        }
        Field::Fraction(p) => {
            if !T::HAS_FRACTION || st.frac_set { return false; }
            if !empty {
                if text[st.pos] == b'-' { return false; }
                let e = rp.next(2);
                if e.arg != p.unwrap_or(9) as usize { rp.bad = true; }
                st.r.usec = e.val as u32;
                st.pos += e.used;
            } else {
                st.r.usec = 0;      // an omitted trailing fraction is zero
            }
            st.frac_set = true;
        }
        Field::AmPm(_) => {
            if !(time && !dtv) || st.ampm.is_some() { return false; }
            if st.hour_set == Some(true) { return false; }
            if !empty {
                let e = rp.next(3);
                if !e.ok { return false; }
                st.ampm = Some(e.neg);
                st.r.hour = adjust12(st.r.hour, e.neg);
                st.pos += e.used;
            }
        }
        Field::MonthName(_) => {
            if !date || st.month_set { return false; }
            let e = rp.next(4);
            if !e.ok { return false; }
            st.r.month = e.val as u32;
            st.month_set = true;
            st.pos += e.used;
        }
        Field::DayName(_) | Field::DayOfWeek => {
            if !date || st.dow.is_some() { return false; }
            let e = rp.next(if let Field::DayOfWeek = field { 6 } else { 5 });
            if !e.ok { return false; }
            st.dow = Some(e.val as u32);
            st.pos += e.used;
        }
        Field::DayOfYear => {
            if !date || st.doy.is_some() { return false; }
            let e = rp.next(1);
            if e.arg != 3 { rp.bad = true; }
            if !e.ok || e.neg { return false; }
            st.doy = Some(e.val as u32);
            st.pos += e.used;
        }
        Field::WeekOfMonth | Field::WeekOfYear => return false,
    }
    true
}

/// after the last token: left-over text, defaults from the clock, day-of-year and weekday cross-checks
fn ref_finish<T: DateTimeFormat>(st: &RefState, text: &[u8], cy: i64, cm: u32, rp: &mut Replay) -> Option<RefRec> {
    let mut r = st.r;
    let pos = st.pos + rp.next(7).used;
    if pos < text.len() { return None; }
    if T::HAS_DATE {
        if !st.year_set { r.year = cy; }
        if !st.month_set { r.month = cm; }
    }
    if let Some(d) = st.doy {
        let leap = k_leap(r.year);
        if d == 0 || d > (if leap { 366 } else { 365 }) { return None; }
        let mut m = 1u32;
        while m < 12 && (k_cum(m as i64 + 1) + (if m + 1 > 2 && leap { 1 } else { 0 })) < d as i64 { m += 1; }
        let dd = (d as i64 - k_cum(m as i64) - (if m > 2 && leap { 1 } else { 0 })) as u32;
        if st.month_set && m != r.month { return None; }
        if st.day_set && dd != r.day { return None; }
        r.month = m;
        r.day = dd;
    }
    if let Some(w) = st.dow {
        if !k_date_ok(r.year, r.month as i64, r.day as i64) { return None; }
        if k_wd(k_dn(r.year, r.month as i64, r.day as i64)) != w as i64 { return None; }
    }
    Some(r)
}

/// what the property prescribes for a picture `fields[..n]`, given the scanners' results in the log
fn ref_glue<T: DateTimeFormat>(fields: &[Field], n: usize, text: &[u8], cy: i64, cm: u32, rp: &mut Replay) -> Option<RefRec> {
    let mut st = REF_INIT;
    let mut i = 0;
    while i < n {
        if !ref_step::<T>(&mut st, &fields[i], text, cy, rp) { return None; }
        i += 1;
    }
    ref_finish::<T>(&st, text, cy, cm, rp)
}

fn parse_glue_check<T: DateTimeFormat>(maxn: usize) {
    let n: usize = kani::any();
    kani::assume(n >= 1 && n <= maxn);
    let fs: [Field; PICN] = [any_field(), any_field(), any_field()];
    parse_glue_run::<T>(fs, n);
}

/// the same check on a given (concrete or symbolic) picture
fn parse_glue_run<T: DateTimeFormat>(fs: [Field; PICN], n: usize) {
    let c = crate::kverif::set_any_clock(false);
    let bytes: [u8; GTXT] = kani::any();
    let len: usize = kani::any();
    kani::assume(len <= GTXT);
    let mut i = 0;
    while i < GTXT { kani::assume(bytes[i] < 128); i += 1; }
    let text = unsafe { core::str::from_utf8_unchecked(&bytes[..len]) };   // ASCII by assumption
    // the year the scanners may hand back is bounded by the scanner contract; the day-of-year table needs a sane year
    let mut fields = StackVec::new();
    i = 0;
    while i < n {
        // (Field is not Copy: rebuild the same token for the formatter)
        fields.push(match &fs[i] {
            Field::Blank(k) => Field::Blank(*k), Field::Hyphen => Field::Hyphen, Field::Colon => Field::Colon, Field::Slash => Field::Slash,
            Field::Backslash => Field::Backslash, Field::Comma => Field::Comma, Field::Dot => Field::Dot, Field::Semicolon => Field::Semicolon, Field::T => Field::T,
            Field::Year(k) => Field::Year(*k), Field::Month => Field::Month, Field::Day => Field::Day, Field::DayName(s) => Field::DayName(*s),
            Field::MonthName(s) => Field::MonthName(*s), Field::Hour24 => Field::Hour24, Field::Hour12 => Field::Hour12, Field::Minute => Field::Minute,
            Field::Second => Field::Second, Field::Fraction(p) => Field::Fraction(*p),
            Field::AmPm(s) => Field::AmPm(match s { AmPmStyle::Upper => AmPmStyle::Upper, AmPmStyle::Lower => AmPmStyle::Lower, AmPmStyle::UpperDot => AmPmStyle::UpperDot, AmPmStyle::LowerDot => AmPmStyle::LowerDot }),
            Field::DayOfWeek => Field::DayOfWeek, Field::DayOfYear => Field::DayOfYear, Field::WeekOfMonth => Field::WeekOfMonth, Field::WeekOfYear => Field::WeekOfYear,
            Field::Invalid => Field::Invalid,
        });
        i += 1;
    }
    let fmt = Formatter { fields, format_exact: false };
    unsafe { K_LOG_LEN = 0; }
    let got: Result<Probe<T>> = fmt.parse_internal::<&str, Probe<T>, false>(text);
    assert!(!matches!(&got, Err(Error::ParseError(_))));    // no error text is ever built under the stubs
    let mut rp = Replay { at: 0, bad: false };
    let want = ref_glue::<T>(&fs, n, &bytes[..len], c[0] as i64, c[1], &mut rp);
    match want {
        None => assert!(got.is_err()),
        Some(r) => {
            assert!(got.is_ok());
            assert!(!rp.bad);
            let g = got.unwrap();
            assert!(g.year as i64 == r.year && g.month == r.month && g.day == r.day);
            assert!(g.hour == r.hour && g.minute == r.minute && g.sec == r.sec && g.usec == r.usec);
            assert!(g.negative == r.negative);
        }
    }
}

macro_rules! parse_glue_harness {
    ($name:ident, $t:ty, $n:expr) => {
        #[kani::proof]
        #[kani::unwind(13)]
        #[kani::stub(crate::util::try_format, stub_try_format)]
        #[kani::stub(crate::common::date2julian, crate::kverif::date2julian_by_contract)]
        #[kani::stub(chrono::Local::now, crate::kverif::stub_now_fixed)]
        #[kani::stub(<chrono::NaiveDateTime as chrono::Datelike>::year, crate::kverif::clock_year)]
        #[kani::stub(<chrono::NaiveDateTime as chrono::Datelike>::month, crate::kverif::clock_month)]
        #[kani::stub(<chrono::NaiveDateTime as chrono::Datelike>::day, crate::kverif::clock_day)]
        #[kani::stub(parse_number, parse_number_oracle)]
        #[kani::stub(parse_fraction, parse_fraction_oracle)]
        #[kani::stub(parse_ampm, parse_ampm_oracle)]
        #[kani::stub(parse_month_name, parse_month_name_oracle)]
        #[kani::stub(parse_week_day_name, parse_week_day_name_oracle)]
        #[kani::stub(parse_week_day_number, parse_week_day_number_oracle)]
        #[kani::stub(eat_whitespaces, eat_whitespaces_oracle)]
        #[kani::stub(<str as crate::util::StrExt>::try_to_string, stub_try_to_string)]
        fn $name() { parse_glue_check::<$t>($n); }
    };
}
macro_rules! parse_picture_harness {
    ($name:ident, $t:ty, $n:expr, $f1:expr, $f2:expr, $f3:expr) => {
        #[kani::proof]
        #[kani::unwind(13)]
        #[kani::stub(crate::util::try_format, stub_try_format)]
        #[kani::stub(crate::common::date2julian, crate::kverif::date2julian_by_contract)]
        #[kani::stub(chrono::Local::now, crate::kverif::stub_now_fixed)]
        #[kani::stub(<chrono::NaiveDateTime as chrono::Datelike>::year, crate::kverif::clock_year)]
        #[kani::stub(<chrono::NaiveDateTime as chrono::Datelike>::month, crate::kverif::clock_month)]
        #[kani::stub(<chrono::NaiveDateTime as chrono::Datelike>::day, crate::kverif::clock_day)]
        #[kani::stub(parse_number, parse_number_oracle)]
        #[kani::stub(parse_fraction, parse_fraction_oracle)]
        #[kani::stub(parse_ampm, parse_ampm_oracle)]
        #[kani::stub(parse_month_name, parse_month_name_oracle)]
        #[kani::stub(parse_week_day_name, parse_week_day_name_oracle)]
        #[kani::stub(parse_week_day_number, parse_week_day_number_oracle)]
        #[kani::stub(eat_whitespaces, eat_whitespaces_oracle)]
        #[kani::stub(<str as crate::util::StrExt>::try_to_string, stub_try_to_string)]
        fn $name() { parse_glue_run::<$t>([$f1, $f2, $f3], $n); }
    };
}
// concrete pictures (quick tier): the field loop on the layouts users actually write
parse_picture_harness!(parse_pic_date_yyyy_ddd, Date, 3, Field::Year(4), Field::Blank(1), Field::DayOfYear);
parse_picture_harness!(parse_pic_date_mm_dd, Date, 3, Field::Month, Field::Hyphen, Field::Day);
parse_picture_harness!(parse_pic_date_dy_dd, Date, 3, Field::DayName(NameStyle::AbbrUpper), Field::Comma, Field::Day);
parse_picture_harness!(parse_pic_date_yy_mon, Date, 3, Field::Year(2), Field::Slash, Field::MonthName(NameStyle::AbbrCapital));
parse_picture_harness!(parse_pic_time_hh_am, Time, 3, Field::Hour12, Field::Blank(1), Field::AmPm(AmPmStyle::Upper));
parse_picture_harness!(parse_pic_time_am_hh, Time, 3, Field::AmPm(AmPmStyle::LowerDot), Field::Blank(1), Field::Hour12);
parse_picture_harness!(parse_pic_time_hh24_mi, Time, 3, Field::Hour24, Field::Colon, Field::Minute);
parse_picture_harness!(parse_pic_time_ss_ff, Time, 3, Field::Second, Field::Dot, Field::Fraction(None));
parse_picture_harness!(parse_pic_ts_ddd_d, Timestamp, 3, Field::DayOfYear, Field::Blank(1), Field::DayOfWeek);
parse_picture_harness!(parse_pic_ts_hh24_am, Timestamp, 2, Field::Hour24, Field::AmPm(AmPmStyle::Upper), Field::Blank(1));
parse_picture_harness!(parse_pic_ym_yyyy_mm, IntervalYM, 3, Field::Year(4), Field::Hyphen, Field::Month);
parse_picture_harness!(parse_pic_dt_dd_hh24, IntervalDT, 3, Field::Day, Field::Blank(1), Field::Hour24);
parse_picture_harness!(parse_pic_dt_mi_ss, IntervalDT, 3, Field::Minute, Field::Colon, Field::Second);
parse_picture_harness!(parse_pic_date_dup_month, Date, 3, Field::Month, Field::Blank(1), Field::MonthName(NameStyle::Upper));

parse_glue_harness!(parse_glue1_date_bounded, Date, 1);
parse_glue_harness!(parse_glue1_time_bounded, Time, 1);
parse_glue_harness!(parse_glue1_timestamp_bounded, Timestamp, 1);
parse_glue_harness!(parse_glue1_interval_ym_bounded, IntervalYM, 1);
parse_glue_harness!(parse_glue1_interval_dt_bounded, IntervalDT, 1);
parse_glue_harness!(parse_glue2_date_bounded, Date, 2);
parse_glue_harness!(parse_glue2_time_bounded, Time, 2);
parse_glue_harness!(parse_glue2_timestamp_bounded, Timestamp, 2);
parse_glue_harness!(parse_glue2_interval_ym_bounded, IntervalYM, 2);
parse_glue_harness!(parse_glue2_interval_dt_bounded, IntervalDT, 2);
parse_glue_harness!(parse_glue3_timestamp_bounded, Timestamp, 3);

// >>> parse_ind
// =========================================================================================
// C05 / C06 / C18 / C03: parse_internal for pictures of ANY length, by induction over the picture.
//
// kanirun places two observation points in the scratch copy of parse_internal (cfg(kani) only, nothing removed or
// reordered): `loop_head_hook` as the first statement of the field loop's body and `after_loop_hook` right after the
// loop; both receive every loop-carried local by &mut.  With them the loop is cut into the three obligations of an
// inductive invariant "the locals represent RefState st, and st == the reference's state for the tokens consumed":
//   init   : entering the loop, the locals represent REF_INIT (and REF_INIT satisfies the state invariant);
//   step   : from ANY state satisfying the invariant, ANY one token, any text, any clock: the body either rejects
//            exactly when ref_step rejects, or leaves locals that represent ref_step's state (invariant preserved);
//   finish : from ANY state satisfying the invariant, the code after the loop returns exactly ref_finish.
// Together: parse_internal(picture, text) == ref_glue(picture, text) for every picture the lexer can produce.
// The leaf scanners are the same logged oracles as in parse_glue_* (their contracts: scan_*_bounded).
// =========================================================================================
pub static mut H_MODE: u8 = 0;          // 0 inert, 1 step, 2 finish, 3 init
pub static mut H_HEAD_CALLS: u8 = 0;
pub static mut H_REACHED: bool = false;
pub static mut H_STATE: RefState = REF_INIT;
pub static mut H_OUT: RefState = REF_INIT;
pub static mut H_OUT_TEXT_OK: bool = false;
pub static mut H_BASE: *const u8 = core::ptr::null();
pub static mut H_LEN: usize = 0;

type Locals<'x, 'a> = (&'x mut &'a [u8], &'x mut NaiveDateTime, &'x mut bool, &'x mut bool, &'x mut bool, &'x mut Option<bool>, &'x mut bool,
                       &'x mut bool, &'x mut bool, &'x mut Option<WeekDay>, &'x mut Option<u32>);

fn locals_load(l: Locals, st: &RefState) {
    let (s, dt, ys, ms, ds, h24, mis, ss, fs, dow, doy) = l;
    unsafe { *s = core::slice::from_raw_parts(H_BASE.add(st.pos), H_LEN - st.pos); }
    dt.year = st.r.year as i32;
    dt.month = st.r.month; dt.day = st.r.day; dt.hour = st.r.hour; dt.minute = st.r.minute; dt.sec = st.r.sec; dt.usec = st.r.usec;
    dt.negative = st.r.negative;
    dt.ampm = match st.ampm { None => None, Some(true) => Some(AmPm::Pm), Some(false) => Some(AmPm::Am) };
    *ys = st.year_set; *ms = st.month_set; *ds = st.day_set; *h24 = st.hour_set; *mis = st.min_set; *ss = st.sec_set; *fs = st.frac_set;
    *dow = match st.dow { None => None, Some(w) => Some(WeekDay::from(w as usize)) };
    *doy = st.doy;
}

fn locals_store(l: Locals) {
    let (s, dt, ys, ms, ds, h24, mis, ss, fs, dow, doy) = l;
    let len = unsafe { H_LEN };
    // the unread text must be a suffix of the input
    let text_ok = s.len() <= len && s.as_ptr() == unsafe { H_BASE.add(len - s.len()) };
    let st = RefState {
        r: RefRec { year: dt.year as i64, month: dt.month, day: dt.day, hour: dt.hour, minute: dt.minute, sec: dt.sec, usec: dt.usec, negative: dt.negative },
        pos: if text_ok { len - s.len() } else { 0 },
        year_set: *ys, month_set: *ms, day_set: *ds, min_set: *mis, sec_set: *ss, frac_set: *fs,
        hour_set: *h24,
        ampm: match &dt.ampm { None => None, Some(AmPm::Pm) => Some(true), Some(AmPm::Am) => Some(false) },
        dow: match dow { None => None, Some(w) => Some(*w as u32) },
        doy: *doy,
    };
    unsafe { H_OUT = st; H_OUT_TEXT_OK = text_ok; H_REACHED = true; }
}

#[allow(clippy::too_many_arguments)]
pub fn loop_head_hook<'a, T: DateTimeFormat>(s: &mut &'a [u8], dt: &mut NaiveDateTime, ys: &mut bool, ms: &mut bool, ds: &mut bool, h24: &mut Option<bool>,
                                             mis: &mut bool, ss: &mut bool, fs: &mut bool, dow: &mut Option<WeekDay>, doy: &mut Option<u32>) {
    if unsafe { H_MODE } != 1 { return; }
    let k = unsafe { H_HEAD_CALLS };
    unsafe { H_HEAD_CALLS = k + 1; }
    if k == 0 {
        let st = unsafe { H_STATE };
        locals_load((s, dt, ys, ms, ds, h24, mis, ss, fs, dow, doy), &st);
    } else if k == 1 {
        locals_store((&mut *s, &mut *dt, &mut *ys, &mut *ms, &mut *ds, &mut *h24, &mut *mis, &mut *ss, &mut *fs, &mut *dow, &mut *doy));
        // the state after one token has been recorded; what follows is not part of the obligation: make it trivial
        let t: &'a [u8] = *s;
        *s = &t[t.len()..];
        *dow = None;
        *doy = None;
    }
}

#[allow(clippy::too_many_arguments)]
pub fn after_loop_hook<'a, T: DateTimeFormat>(s: &mut &'a [u8], dt: &mut NaiveDateTime, ys: &mut bool, ms: &mut bool, ds: &mut bool, h24: &mut Option<bool>,
                                              mis: &mut bool, ss: &mut bool, fs: &mut bool, dow: &mut Option<WeekDay>, doy: &mut Option<u32>) {
    let mode = unsafe { H_MODE };
    if mode == 2 {
        let st = unsafe { H_STATE };
        locals_load((s, dt, ys, ms, ds, h24, mis, ss, fs, dow, doy), &st);
    } else if mode == 3 {
        locals_store((s, dt, ys, ms, ds, h24, mis, ss, fs, dow, doy));
    }
}

/// the state invariant: what every scanner contract bounds, and the hour / meridian bookkeeping
fn ref_inv(st: &RefState, len: usize) -> bool {
    let r = &st.r;
    let hour_ok = match (st.hour_set, st.ampm) {
        (None, None) => r.hour == 0,
        (None, Some(pm)) => r.hour == if pm { 12 } else { 0 },
        (Some(true), None) => r.hour <= 99,
        (Some(true), Some(_)) => false,
        (Some(false), None) => r.hour >= 1 && r.hour <= 12,
        (Some(false), Some(pm)) => if pm { r.hour >= 12 && r.hour <= 23 } else { r.hour <= 11 },
    };
    st.pos <= len && hour_ok
        && r.year >= -999_999_999 && r.year <= 999_999_999 && r.month <= 99 && r.day <= 999_999_999
        && r.minute <= 99 && r.sec <= 99 && r.usec <= 1_000_000
        && match st.doy { None => true, Some(d) => d <= 999 }
        && match st.dow { None => true, Some(w) => w >= 1 && w <= 7 }
}

fn state_eq(a: &RefState, b: &RefState) -> bool {
    a.r.year == b.r.year && a.r.month == b.r.month && a.r.day == b.r.day && a.r.hour == b.r.hour && a.r.minute == b.r.minute
        && a.r.sec == b.r.sec && a.r.usec == b.r.usec && a.r.negative == b.r.negative && a.pos == b.pos
        && a.year_set == b.year_set && a.month_set == b.month_set && a.day_set == b.day_set && a.min_set == b.min_set
        && a.sec_set == b.sec_set && a.frac_set == b.frac_set && a.hour_set == b.hour_set && a.ampm == b.ampm && a.dow == b.dow && a.doy == b.doy
}

fn any_state(len: usize) -> RefState {
    let y: i32 = kani::any();
    let st = RefState {
        r: RefRec { year: y as i64, month: kani::any(), day: kani::any(), hour: kani::any(), minute: kani::any(), sec: kani::any(), usec: kani::any(), negative: kani::any() },
        pos: kani::any(),
        year_set: kani::any(), month_set: kani::any(), day_set: kani::any(), min_set: kani::any(), sec_set: kani::any(), frac_set: kani::any(),
        hour_set: kani::any(), ampm: kani::any(), dow: kani::any(), doy: kani::any(),
    };
    kani::assume(ref_inv(&st, len));
    st
}

fn clone_field(f: &Field) -> Field {
    match f {
        Field::Blank(k) => Field::Blank(*k), Field::Hyphen => Field::Hyphen, Field::Colon => Field::Colon, Field::Slash => Field::Slash,
        Field::Backslash => Field::Backslash, Field::Comma => Field::Comma, Field::Dot => Field::Dot, Field::Semicolon => Field::Semicolon, Field::T => Field::T,
        Field::Year(k) => Field::Year(*k), Field::Month => Field::Month, Field::Day => Field::Day, Field::DayName(s) => Field::DayName(*s),
        Field::MonthName(s) => Field::MonthName(*s), Field::Hour24 => Field::Hour24, Field::Hour12 => Field::Hour12, Field::Minute => Field::Minute,
        Field::Second => Field::Second, Field::Fraction(p) => Field::Fraction(*p),
        Field::AmPm(s) => Field::AmPm(match s { AmPmStyle::Upper => AmPmStyle::Upper, AmPmStyle::Lower => AmPmStyle::Lower, AmPmStyle::UpperDot => AmPmStyle::UpperDot, AmPmStyle::LowerDot => AmPmStyle::LowerDot }),
        Field::DayOfWeek => Field::DayOfWeek, Field::DayOfYear => Field::DayOfYear, Field::WeekOfMonth => Field::WeekOfMonth, Field::WeekOfYear => Field::WeekOfYear,
        Field::Invalid => Field::Invalid,
    }
}

fn ind_text() -> ([u8; GTXT], usize) {
    let bytes: [u8; GTXT] = kani::any();
    let len: usize = kani::any();
    kani::assume(len <= GTXT);
    let mut i = 0;
    while i < GTXT { kani::assume(bytes[i] < 128); i += 1; }
    (bytes, len)
}

/// the unread text of an intermediate state: ANY bytes (a superset of the suffixes of a valid &str)
fn ind_bytes() -> ([u8; GTXT], usize) {
    let bytes: [u8; GTXT] = kani::any();
    let len: usize = kani::any();
    kani::assume(len <= GTXT);
    (bytes, len)
}

/// any token the lexer can produce (blank runs of every length)
fn any_field_parse() -> Field {
    match any_field() {
        Field::Blank(_) => { let n: u8 = kani::any(); kani::assume(n >= 1); Field::Blank(n) }
        f => f,
    }
}

fn parse_ind_init_check<T: DateTimeFormat>() {
    let _c = crate::kverif::set_any_clock(false);
    let (bytes, len) = ind_text();
    let text = unsafe { core::str::from_utf8_unchecked(&bytes[..len]) };
    unsafe { H_MODE = 3; H_REACHED = false; H_BASE = bytes.as_ptr(); H_LEN = len; K_LOG_LEN = 0; }
    let fmt = Formatter { fields: StackVec::new(), format_exact: false };
    let _got: Result<Probe<T>> = fmt.parse_internal::<&str, Probe<T>, false>(text);
    assert!(unsafe { H_REACHED });
    let o = unsafe { H_OUT };
    assert!(unsafe { H_OUT_TEXT_OK });
    assert!(state_eq(&o, &REF_INIT));
    assert!(ref_inv(&REF_INIT, len));
    assert!(unsafe { K_LOG_LEN } <= 1);      // nothing scanned before the loop (the one entry is the blank skip after it)
}

fn parse_ind_step_check<T: DateTimeFormat>(f: Field) {
    let c = crate::kverif::set_any_clock(false);
    let (bytes, len) = ind_bytes();
    let text = "";          // `input` is only quoted in error messages; the unread text comes from the state
    let st0 = any_state(len);
    unsafe { H_MODE = 1; H_HEAD_CALLS = 0; H_REACHED = false; H_STATE = st0; H_BASE = bytes.as_ptr(); H_LEN = len; K_LOG_LEN = 0; }
    let mut fields = StackVec::new();
    fields.push(clone_field(&f));
    fields.push(Field::Blank(1));
    let fmt = Formatter { fields, format_exact: false };
    let got: Result<Probe<T>> = fmt.parse_internal::<&str, Probe<T>, false>(text);
    let mut rp = Replay { at: 0, bad: false };
    let mut st1 = st0;
    let ok = ref_step::<T>(&mut st1, &f, &bytes[..len], c[0] as i64, &mut rp);
    if unsafe { H_REACHED } {
        assert!(ok);
        assert!(!rp.bad);
        assert!(unsafe { H_OUT_TEXT_OK });
        let o = unsafe { H_OUT };
        assert!(o.r.year == st1.r.year && o.r.month == st1.r.month && o.r.day == st1.r.day);
        assert!(o.r.hour == st1.r.hour);
        assert!(o.r.minute == st1.r.minute && o.r.sec == st1.r.sec && o.r.usec == st1.r.usec);
        assert!(o.r.negative == st1.r.negative);
        assert!(o.pos == st1.pos);
        assert!(o.year_set == st1.year_set && o.month_set == st1.month_set && o.day_set == st1.day_set);
        assert!(o.hour_set == st1.hour_set && o.min_set == st1.min_set && o.sec_set == st1.sec_set && o.frac_set == st1.frac_set);
        assert!(o.ampm == st1.ampm);
        assert!(o.dow == st1.dow && o.doy == st1.doy);
        assert!(state_eq(&o, &st1));
        assert!(ref_inv(&st1, len));
    } else {
        assert!(!ok);
        assert!(got.is_err());
        assert!(!matches!(&got, Err(Error::ParseError(_))));    // no error text is ever built under the stubs
    }
}

fn parse_ind_finish_check<T: DateTimeFormat>() {
    let c = crate::kverif::set_any_clock(false);
    let (bytes, len) = ind_bytes();
    let text = "";
    let st0 = any_state(len);
    unsafe { H_MODE = 2; H_REACHED = false; H_STATE = st0; H_BASE = bytes.as_ptr(); H_LEN = len; K_LOG_LEN = 0; }
    let fmt = Formatter { fields: StackVec::new(), format_exact: false };
    let got: Result<Probe<T>> = fmt.parse_internal::<&str, Probe<T>, false>(text);
    let mut rp = Replay { at: 0, bad: false };
    match ref_finish::<T>(&st0, &bytes[..len], c[0] as i64, c[1], &mut rp) {
        None => assert!(got.is_err()),
        Some(r) => {
            assert!(got.is_ok());
            assert!(!rp.bad);
            let g = got.unwrap();
            assert!(g.year as i64 == r.year && g.month == r.month && g.day == r.day);
            assert!(g.hour == r.hour && g.minute == r.minute && g.sec == r.sec && g.usec == r.usec);
            assert!(g.negative == r.negative);
        }
    }
}

macro_rules! parse_ind_harness {
    ($name:ident, $body:expr) => {
        #[kani::proof]
        #[kani::unwind(13)]
        #[kani::stub(crate::util::try_format, stub_try_format)]
        #[kani::stub(crate::common::date2julian, crate::kverif::date2julian_by_contract)]
        #[kani::stub(chrono::Local::now, crate::kverif::stub_now_fixed)]
        #[kani::stub(<chrono::NaiveDateTime as chrono::Datelike>::year, crate::kverif::clock_year)]
        #[kani::stub(<chrono::NaiveDateTime as chrono::Datelike>::month, crate::kverif::clock_month)]
        #[kani::stub(<chrono::NaiveDateTime as chrono::Datelike>::day, crate::kverif::clock_day)]
        #[kani::stub(parse_number, parse_number_oracle)]
        #[kani::stub(parse_fraction, parse_fraction_oracle)]
        #[kani::stub(parse_ampm, parse_ampm_oracle)]
        #[kani::stub(parse_month_name, parse_month_name_oracle)]
        #[kani::stub(parse_week_day_name, parse_week_day_name_oracle)]
        #[kani::stub(parse_week_day_number, parse_week_day_number_oracle)]
        #[kani::stub(eat_whitespaces, eat_whitespaces_oracle)]
        #[kani::stub(<str as crate::util::StrExt>::try_to_string, stub_try_to_string)]
        fn $name() { $body }
    };
}
parse_ind_harness!(parse_ind_init_date, parse_ind_init_check::<Date>());
parse_ind_harness!(parse_ind_init_time, parse_ind_init_check::<Time>());
parse_ind_harness!(parse_ind_init_timestamp, parse_ind_init_check::<Timestamp>());
parse_ind_harness!(parse_ind_init_interval_ym, parse_ind_init_check::<IntervalYM>());
parse_ind_harness!(parse_ind_init_interval_dt, parse_ind_init_check::<IntervalDT>());
parse_ind_harness!(parse_ind_step_date, parse_ind_step_check::<Date>(any_field_parse()));
parse_ind_harness!(parse_ind_step_time, parse_ind_step_check::<Time>(any_field_parse()));
parse_ind_harness!(parse_ind_step_timestamp, parse_ind_step_check::<Timestamp>(any_field_parse()));
parse_ind_harness!(parse_ind_step_interval_ym, parse_ind_step_check::<IntervalYM>(any_field_parse()));
parse_ind_harness!(parse_ind_step_interval_dt, parse_ind_step_check::<IntervalDT>(any_field_parse()));
parse_ind_harness!(parse_ind_finish_date, parse_ind_finish_check::<Date>());
parse_ind_harness!(parse_ind_finish_time, parse_ind_finish_check::<Time>());
parse_ind_harness!(parse_ind_finish_timestamp, parse_ind_finish_check::<Timestamp>());
parse_ind_harness!(parse_ind_finish_interval_ym, parse_ind_finish_check::<IntervalYM>());
parse_ind_harness!(parse_ind_finish_interval_dt, parse_ind_finish_check::<IntervalDT>());
// <<< parse_ind

// =========================================================================================
// C06: every token is lossless on its own - the scanner reads back exactly what the renderer wrote,
// consuming all of it (fixed-width renderings fill the scanner's maximum width, so adjacent fields cannot bleed)
// =========================================================================================
fn reads_back(s: &[u8], max_len: usize, v: i32) {
    assert!(s.len() <= max_len);
    let r = parse_number(s, max_len);
    assert!(r.is_ok());
    let (neg, n, rem) = r.unwrap();
    assert!(!neg && n == v && rem.is_empty());
}

#[kani::proof]
#[kani::unwind(6)]
fn token_roundtrip_two_digit() {
    let mut dt = NaiveDateTime::new();
    let v: u32 = kani::any();
    kani::assume(v <= 59);
    if v >= 1 && v <= 12 { dt.month = v; reads_back(dt.month_str().as_bytes(), 2, v as i32); assert!(dt.month_str().len() == 2); }
    if v >= 1 && v <= 31 { dt.day = v; reads_back(dt.day_str().as_bytes(), 2, v as i32); assert!(dt.day_str().len() == 2); }
    if v <= 23 {
        dt.hour = v;
        reads_back(dt.hour24_str().as_bytes(), 2, v as i32);
        assert!(dt.hour24_str().len() == 2);
        // 12-hour text + meridian gives the hour back
        let h12v = dt.hour12();
        reads_back(dt.hour12_str().as_bytes(), 2, h12v as i32);
        let mut back = NaiveDateTime::new();
        back.hour = h12v;
        back.ampm = Some(if v < 12 { AmPm::Am } else { AmPm::Pm });
        back.adjust_hour12();
        assert!(back.hour == v);
    }
    dt.minute = v;
    dt.sec = v;
    reads_back(dt.minute_str().as_bytes(), 2, v as i32);
    reads_back(dt.second_str().as_bytes(), 2, v as i32);
    assert!(dt.minute_str().len() == 2 && dt.second_str().len() == 2);
}

#[kani::proof]
#[kani::unwind(14)]
fn token_roundtrip_month_names() {
    let st = any_style();
    let m: usize = kani::any();
    kani::assume(m >= 1 && m <= 12);
    let mut dt = NaiveDateTime::new();
    dt.month = m as u32;
    let r = parse_month_name(dt.month_name(st).as_bytes());
    assert!(r.is_ok());
    let (mon, rem) = r.unwrap();
    assert!(mon as usize == m && rem.is_empty());
}

#[kani::proof]
#[kani::unwind(14)]
fn token_roundtrip_weekday_names() {
    let st = any_style();
    let m: usize = kani::any();
    kani::assume(m >= 1 && m <= 7);
    let w = WeekDay::from(m);
    let r2 = parse_week_day_name(w.name(st).as_bytes(), st);
    assert!(r2.is_ok());
    let (d, rem2) = r2.unwrap();
    assert!(d as usize == m && rem2.is_empty());
    let r3 = parse_week_day_number(w.num_str().as_bytes());
    assert!(r3.is_ok() && r3.unwrap().0 as usize == m);
}

#[kani::proof]
#[kani::unwind(8)]
fn token_roundtrip_ampm() {
    let styles = [AmPmStyle::Upper, AmPmStyle::Lower, AmPmStyle::UpperDot, AmPmStyle::LowerDot];
    let mut i = 0;
    while i < 4 {
        let h: u32 = kani::any();
        kani::assume(h < 24);
        let txt = styles[i].format(h).as_bytes();
        let r = parse_ampm(txt, &styles[i]);
        assert!(r.is_ok());
        let (v, rem) = r.unwrap();
        assert!(rem.is_empty());
        match v { Some(AmPm::Am) => assert!(h < 12), Some(AmPm::Pm) => assert!(h >= 12), None => assert!(false) }
        i += 1;
    }
}

/// DDD text reads back as the day of year, and the day of year maps back to (month, day)
#[kani::proof]
#[kani::unwind(6)]
fn token_roundtrip_day_of_year() {
    let leap: bool = kani::any();
    let year: i64 = if leap { 2024 } else { 2023 };
    let m: u32 = kani::any();
    let d: u32 = kani::any();
    kani::assume(m >= 1 && m <= 12 && d >= 1 && d as i64 <= k_mdays(year, m as i64));
    let mut dt = NaiveDateTime::new();
    dt.year = year as i32;
    dt.month = m;
    dt.day = d;
    let s = dt.day_of_year_str().as_bytes();
    assert!(s.len() == 3);
    let r = parse_number(s, 3);
    assert!(r.is_ok());
    let (neg, doy, rem) = r.unwrap();
    assert!(!neg && rem.is_empty());
    let (m2, d2) = the_month_day_of_days(doy as u32, leap);
    assert!(m2 == m && d2 == d);
}

/// year and fraction digits (write_u32) read back: YYYY exactly, FF6..FF9 losslessly
#[kani::proof]
#[kani::unwind(13)]
#[kani::stub(crate::util::try_format, stub_try_format)]
#[kani::stub(<str as crate::util::StrExt>::try_to_string, stub_try_to_string)]
fn token_roundtrip_year_fraction() {
    let y: u32 = kani::any();
    kani::assume(y >= 1 && y <= 9999);
    let mut w = Sink::new();
    assert!(write_u32(&mut w, y, 4).is_ok());
    assert!(w.len == 4);
    reads_back(&w.buf[..4], 4, y as i32);
    let us: u32 = kani::any();
    kani::assume(us < 1_000_000);
    let mut w2 = Sink::new();
    assert!(write_u32(&mut w2, us, 6).is_ok());
    assert!(w2.len == 6);
    let r = parse_fraction(&w2.buf[..6], 6);
    assert!(r.is_ok());
    let (back, rem) = r.unwrap();
    assert!(back == us && rem.is_empty());
}

