//! Kani obligations for format.rs, injected as a child module of `format` (sees private items):
//! picture lexer (C19), scanners (C05/C03), per-token rendering (C04), short-picture parses (C05/C06/C18).
#![allow(unused_imports, dead_code, unused_variables, unused_mut)]

use super::*;
use crate::kverif::twins::*;
use core::fmt::Write;

// =========================================================================================
// fixed-capacity text sink
// =========================================================================================
pub struct Sink {
    pub buf: [u8; 48],
    pub len: usize,
}

impl Sink {
    pub fn new() -> Self {
        Sink { buf: [0; 48], len: 0 }
    }
    pub fn eq_bytes(&self, s: &[u8]) -> bool {
        if self.len != s.len() {
            return false;
        }
        let mut i = 0;
        while i < s.len() {
            if self.buf[i] != s[i] {
                return false;
            }
            i += 1;
        }
        true
    }
}

impl fmt::Write for Sink {
    fn write_str(&mut self, s: &str) -> fmt::Result {
        let b = s.as_bytes();
        if self.len + b.len() > 48 {
            return Err(fmt::Error);
        }
        let mut i = 0;
        while i < b.len() {
            self.buf[self.len + i] = b[i];
            i += 1;
        }
        self.len += b.len();
        Ok(())
    }
}

// =========================================================================================
// C19: the picture lexer against a reference longest-match tokenizer written from the property
// =========================================================================================
#[derive(PartialEq, Clone, Copy)]
pub enum RefTok {
    Blank,
    Punct(u8),
    T,
    Year(u8),
    Month,
    Mon,
    MonthName,
    Day,
    DayOfYear,
    DayOfWeek,
    DayName,
    Dy,
    Hour12,
    Hour24,
    Minute,
    Second,
    Fraction(u8), // 0 = FF
    AmPm,
    AmPmDot,
    WeekOfMonth,
    WeekOfYear,
}

fn lower(b: u8) -> u8 {
    if b >= b'A' && b <= b'Z' { b + 32 } else { b }
}

/// case-insensitive: does `s` start with `pat` (pat given in lower case)?
fn ci(s: &[u8], pat: &[u8]) -> bool {
    if s.len() < pat.len() {
        return false;
    }
    let mut i = 0;
    while i < pat.len() {
        if lower(s[i]) != pat[i] {
            return false;
        }
        i += 1;
    }
    true
}

/// the longest documented token at the start of `s` and its length
pub fn ref_token(s: &[u8]) -> Option<(RefTok, usize)> {
    if s.is_empty() {
        return None;
    }
    let c = s[0];
    if c == b' ' {
        let mut n = 1;
        while n < s.len() && s[n] == b' ' {
            n += 1;
        }
        return Some((RefTok::Blank, n));
    }
    if c == b'-' || c == b':' || c == b'/' || c == b'\\' || c == b',' || c == b'.' || c == b';' {
        return Some((RefTok::Punct(c), 1));
    }
    if c == b'T' {
        return Some((RefTok::T, 1));
    }
    if ci(s, b"yyyy") { return Some((RefTok::Year(4), 4)); }
    if ci(s, b"yyy") { return Some((RefTok::Year(3), 3)); }
    if ci(s, b"yy") { return Some((RefTok::Year(2), 2)); }
    if ci(s, b"y") { return Some((RefTok::Year(1), 1)); }
    if ci(s, b"month") { return Some((RefTok::MonthName, 5)); }
    if ci(s, b"mon") { return Some((RefTok::Mon, 3)); }
    if ci(s, b"mm") { return Some((RefTok::Month, 2)); }
    if ci(s, b"mi") { return Some((RefTok::Minute, 2)); }
    if ci(s, b"ddd") { return Some((RefTok::DayOfYear, 3)); }
    if ci(s, b"day") { return Some((RefTok::DayName, 3)); }
    if ci(s, b"dd") { return Some((RefTok::Day, 2)); }
    if ci(s, b"dy") { return Some((RefTok::Dy, 2)); }
    if ci(s, b"d") { return Some((RefTok::DayOfWeek, 1)); }
    if ci(s, b"hh24") { return Some((RefTok::Hour24, 4)); }
    if ci(s, b"hh12") { return Some((RefTok::Hour12, 4)); }
    if ci(s, b"hh") { return Some((RefTok::Hour12, 2)); }
    if ci(s, b"ss") { return Some((RefTok::Second, 2)); }
    if ci(s, b"ff") {
        if s.len() >= 3 && s[2] >= b'1' && s[2] <= b'9' {
            return Some((RefTok::Fraction(s[2] - b'0'), 3));
        }
        return Some((RefTok::Fraction(0), 2));
    }
    if ci(s, b"a.m.") || ci(s, b"p.m.") { return Some((RefTok::AmPmDot, 4)); }
    if ci(s, b"am") || ci(s, b"pm") { return Some((RefTok::AmPm, 2)); }
    if ci(s, b"ww") { return Some((RefTok::WeekOfYear, 2)); }
    if ci(s, b"w") { return Some((RefTok::WeekOfMonth, 1)); }
    None
}

/// name style selected by the letter case of the first two letters
fn ref_style(s: &[u8], abbr: bool) -> NameStyle {
    let up0 = s[0] >= b'A' && s[0] <= b'Z';
    let up1 = s[1] >= b'A' && s[1] <= b'Z';
    match (up0, up1, abbr) {
        (true, true, false) => NameStyle::Upper,
        (true, false, false) => NameStyle::Capital,
        (false, _, false) => NameStyle::Lower,
        (true, true, true) => NameStyle::AbbrUpper,
        (true, false, true) => NameStyle::AbbrCapital,
        (false, _, true) => NameStyle::AbbrLower,
    }
}

fn field_matches(f: &Field, t: RefTok, s: &[u8], n: usize) -> bool {
    match (f, t) {
        (Field::Blank(k), RefTok::Blank) => *k as usize == n,
        (Field::Hyphen, RefTok::Punct(b'-')) => true,
        (Field::Colon, RefTok::Punct(b':')) => true,
        (Field::Slash, RefTok::Punct(b'/')) => true,
        (Field::Backslash, RefTok::Punct(b'\\')) => true,
        (Field::Comma, RefTok::Punct(b',')) => true,
        (Field::Dot, RefTok::Punct(b'.')) => true,
        (Field::Semicolon, RefTok::Punct(b';')) => true,
        (Field::T, RefTok::T) => true,
        (Field::Year(k), RefTok::Year(j)) => *k == j,
        (Field::Month, RefTok::Month) => true,
        (Field::MonthName(st), RefTok::MonthName) => *st == ref_style(s, false),
        (Field::MonthName(st), RefTok::Mon) => *st == ref_style(s, true),
        (Field::Day, RefTok::Day) => true,
        (Field::DayOfYear, RefTok::DayOfYear) => true,
        (Field::DayOfWeek, RefTok::DayOfWeek) => true,
        (Field::DayName(st), RefTok::DayName) => *st == ref_style(s, false),
        (Field::DayName(st), RefTok::Dy) => *st == ref_style(s, true),
        (Field::Hour12, RefTok::Hour12) => true,
        (Field::Hour24, RefTok::Hour24) => true,
        (Field::Minute, RefTok::Minute) => true,
        (Field::Second, RefTok::Second) => true,
        (Field::Fraction(None), RefTok::Fraction(0)) => true,
        (Field::Fraction(Some(p)), RefTok::Fraction(q)) => *p == q && q != 0,
        (Field::AmPm(st), RefTok::AmPm) => *st == AmPmStyle::Upper || *st == AmPmStyle::Lower,
        (Field::AmPm(st), RefTok::AmPmDot) => *st == AmPmStyle::UpperDot || *st == AmPmStyle::LowerDot,
        (Field::WeekOfMonth, RefTok::WeekOfMonth) => true,
        (Field::WeekOfYear, RefTok::WeekOfYear) => true,
        _ => false,
    }
}

fn ref_accepts(pic: &[u8]) -> bool {
    let mut pos = 0;
    while pos < pic.len() {
        match ref_token(&pic[pos..]) {
            Some((_, n)) => pos += n,
            None => return false,
        }
    }
    true
}

fn lex_check(pic: &[u8]) {
    let want = ref_accepts(pic);
    let mut p = FormatParser::new(pic);
    let mut pos = 0usize;
    let mut accepted = true;
    loop {
        let before = p.pos;
        match p.next() {
            None => break,
            Some(Field::Invalid) => {
                accepted = false;
                break;
            }
            Some(f) => {
                if want {
                    // same token boundaries, same field, same style
                    let r = ref_token(&pic[pos..]);
                    assert!(r.is_some());
                    let (t, n) = r.unwrap();
                    assert!(before == pos);
                    assert!(p.pos - before == n);
                    assert!(field_matches(&f, t, &pic[pos..], n));
                    pos += n;
                }
            }
        }
    }
    assert!(accepted == want);
}

#[kani::proof]
#[kani::unwind(7)]
fn lex_picture_len5_bounded() {
    let bytes: [u8; 5] = kani::any();
    let len: usize = kani::any();
    kani::assume(len <= 5);
    lex_check(&bytes[..len]);
}

#[kani::proof]
#[kani::unwind(8)]
fn lex_picture_len6_bounded() {
    let bytes: [u8; 6] = kani::any();
    let len: usize = kani::any();
    kani::assume(len <= 6);
    lex_check(&bytes[..len]);
}

/// one token at the start of an 8-byte window: every token-boundary decision of `next()`
#[kani::proof]
#[kani::unwind(10)]
fn lex_first_token_bounded() {
    let bytes: [u8; 8] = kani::any();
    let len: usize = kani::any();
    kani::assume(len >= 1 && len <= 8);
    let pic = &bytes[..len];
    let mut p = FormatParser::new(pic);
    let f = p.next().unwrap();
    match ref_token(pic) {
        None => assert!(f == Field::Invalid),
        Some((t, n)) => {
            if f == Field::Invalid {
                // allowed only where the reference rejects the continuation (e.g. "FF0", "A.M" + garbage)
                assert!(!ref_accepts(pic));
            } else {
                assert!(p.pos == n);
                assert!(field_matches(&f, t, pic, n));
            }
        }
    }
}

/// a run of blanks of any length is one or more Blank fields whose lengths add up to the run
#[kani::proof]
#[kani::unwind(605)]
fn lex_blank_run_bounded() {
    let bytes = [b' '; 600];
    let len: usize = kani::any();
    kani::assume(len >= 1 && len <= 600);
    let mut p = FormatParser::new(&bytes[..len]);
    let mut total = 0usize;
    let mut fields = 0usize;
    loop {
        match p.next() {
            None => break,
            Some(Field::Blank(n)) => {
                assert!(n >= 1);
                total += n as usize;
                fields += 1;
            }
            Some(_) => assert!(false),
        }
    }
    assert!(total == len);
    assert!(fields <= 3);
}

/// at most 36 tokens
#[kani::proof]
#[kani::unwind(40)]
#[kani::stub(crate::util::try_format, stub_try_format)]
fn picture_token_limit() {
    let p36 = "-:-:-:-:-:-:-:-:-:-:-:-:-:-:-:-:-:-:";
    let p37 = "-:-:-:-:-:-:-:-:-:-:-:-:-:-:-:-:-:-:-";
    assert!(p36.len() == 36 && p37.len() == 37);
    let a = Formatter::try_new(p36);
    assert!(a.is_ok());
    assert!(a.unwrap().fields.len() == 36);
    assert!(Formatter::try_new(p37).is_err());
    assert!(Formatter::try_new("").is_ok());
}

pub fn stub_try_format(_args: fmt::Arguments<'_>) -> Result<String> {
    Ok(String::new())
}

// =========================================================================================
// C05 / C03: scanner contracts
// =========================================================================================
fn is_digit(b: u8) -> bool {
    b >= b'0' && b <= b'9'
}

#[kani::proof]
#[kani::unwind(14)]
fn scan_parse_number_bounded() {
    let bytes: [u8; 12] = kani::any();
    let len: usize = kani::any();
    kani::assume(len <= 12);
    let max_len: usize = kani::any();
    kani::assume(max_len >= 1 && max_len <= 9);
    let input = &bytes[..len];
    let r = parse_number(input, max_len);
    if len == 0 {
        assert!(r.is_err());
        return;
    }
    let signed = input[0] == b'+' || input[0] == b'-';
    let start = if signed { 1 } else { 0 };
    let mut k = 0usize;
    let mut val: i64 = 0;
    while start + k < len && k < max_len && is_digit(input[start + k]) {
        val = val * 10 + (input[start + k] - b'0') as i64;
        k += 1;
    }
    if k == 0 {
        assert!(r.is_err());
    } else {
        assert!(r.is_ok());
        let (neg, n, rem) = r.unwrap();
        assert!(neg == (input[0] == b'-'));
        assert!(n as i64 == if neg { -val } else { val });
        assert!(n > -1_000_000_000 && n < 1_000_000_000);
        assert!(rem.len() == len - start - k);
        assert!(rem.as_ptr() == input[start + k..].as_ptr());
    }
}

#[kani::proof]
#[kani::unwind(12)]
fn scan_parse_fraction_short_bounded() {
    // up to six digits: exact scaling to microseconds
    let bytes: [u8; 8] = kani::any();
    let len: usize = kani::any();
    kani::assume(len <= 8);
    let max_len: usize = kani::any();
    kani::assume(max_len >= 1 && max_len <= 6);
    let input = &bytes[..len];
    let r = parse_fraction(input, max_len);
    if len == 0 {
        assert!(r.is_ok() && r.unwrap().0 == 0);
        return;
    }
    if input[0] == b'-' {
        assert!(r.is_err());
        return;
    }
    let mut k = 0usize;
    let mut val: u64 = 0;
    while k < len && k < max_len && is_digit(input[k]) {
        val = val * 10 + (input[k] - b'0') as u64;
        k += 1;
    }
    let mut scale: u64 = 1;
    let mut j = k;
    while j < 6 {
        scale *= 10;
        j += 1;
    }
    assert!(r.is_ok());
    let (usec, rem) = r.unwrap();
    assert!(usec as u64 == val * scale);
    assert!(rem.len() == len - k);
}

fn fraction_round_check(digits: usize) {
    // 7..9 digits: rounded half-up to microseconds (may carry to 1_000_000)
    let v: u32 = kani::any();
    let (lim, div): (u32, u32) = match digits { 7 => (10_000_000, 10), 8 => (100_000_000, 100), _ => (1_000_000_000, 1000) };
    kani::assume(v < lim);
    let mut buf = [b'0'; 9];
    let mut x = v;
    let mut i = digits;
    while i > 0 {
        buf[i - 1] = b'0' + (x % 10) as u8;
        x /= 10;
        i -= 1;
    }
    let r = parse_fraction(&buf[..digits], 9);
    assert!(r.is_ok());
    let (usec, rem) = r.unwrap();
    assert!(rem.is_empty());
    assert!(usec == (v + div / 2) / div);
    assert!(usec <= 1_000_000);
}

#[kani::proof]
#[kani::unwind(12)]
fn scan_parse_fraction_round7() {
    fraction_round_check(7);
}

#[kani::proof]
#[kani::unwind(12)]
fn scan_parse_fraction_round8() {
    fraction_round_check(8);
}

#[kani::proof]
#[kani::unwind(12)]
fn scan_parse_fraction_round9() {
    fraction_round_check(9);
}

#[kani::proof]
#[kani::unwind(8)]
fn scan_week_day_number() {
    let bytes: [u8; 3] = kani::any();
    let len: usize = kani::any();
    kani::assume(len <= 3);
    let input = &bytes[..len];
    let r = parse_week_day_number(input);
    if len >= 1 && input[0] >= b'1' && input[0] <= b'7' {
        assert!(r.is_ok());
        let (d, rem) = r.unwrap();
        assert!(d as u8 == input[0] - b'0');
        assert!(rem.len() == len - 1);
    } else {
        assert!(r.is_err());
    }
}

#[kani::proof]
#[kani::unwind(8)]
fn scan_ampm_bounded() {
    let bytes: [u8; 6] = kani::any();
    let len: usize = kani::any();
    kani::assume(len <= 6);
    let dotted: bool = kani::any();
    let upper: bool = kani::any();
    let style = match (dotted, upper) {
        (true, true) => AmPmStyle::UpperDot,
        (true, false) => AmPmStyle::LowerDot,
        (false, true) => AmPmStyle::Upper,
        (false, false) => AmPmStyle::Lower,
    };
    let input = &bytes[..len];
    let r = parse_ampm(input, &style);
    if len == 0 {
        assert!(r.is_ok() && r.unwrap().0.is_none());
        return;
    }
    let (am, pm, n): (bool, bool, usize) = if dotted {
        (ci(input, b"a.m."), ci(input, b"p.m."), 4)
    } else {
        (ci(input, b"am"), ci(input, b"pm"), 2)
    };
    if am || pm {
        assert!(r.is_ok());
        let (v, rem) = r.unwrap();
        assert!(rem.len() == len - n);
        match v {
            Some(AmPm::Am) => assert!(am),
            Some(AmPm::Pm) => assert!(pm),
            None => assert!(false),
        }
    } else {
        assert!(r.is_err());
    }
}

const REF_MONTHS: [&[u8]; 12] = [b"january", b"february", b"march", b"april", b"may", b"june", b"july", b"august", b"september",
    b"october", b"november", b"december"];
const REF_DAYS: [&[u8]; 7] = [b"sunday", b"monday", b"tuesday", b"wednesday", b"thursday", b"friday", b"saturday"];

#[kani::proof]
#[kani::unwind(14)]
fn scan_month_name_bounded() {
    let bytes: [u8; 10] = kani::any();
    let len: usize = kani::any();
    kani::assume(len <= 10);
    let input = &bytes[..len];
    let r = parse_month_name(input);
    // full name first, then the three-letter abbreviation, any letter case
    let mut want: Option<(usize, usize)> = None;
    let mut i = 0;
    while i < 12 {
        if want.is_none() && ci(input, REF_MONTHS[i]) {
            want = Some((i + 1, REF_MONTHS[i].len()));
        }
        i += 1;
    }
    i = 0;
    while i < 12 {
        if want.is_none() && ci(input, &REF_MONTHS[i][..3]) {
            want = Some((i + 1, 3));
        }
        i += 1;
    }
    match want {
        Some((m, n)) => {
            assert!(r.is_ok());
            let (mon, rem) = r.unwrap();
            assert!(mon as usize == m);
            assert!(rem.len() == len - n);
        }
        None => assert!(r.is_err()),
    }
}

#[kani::proof]
#[kani::unwind(14)]
fn scan_week_day_name_bounded() {
    let bytes: [u8; 10] = kani::any();
    let len: usize = kani::any();
    kani::assume(len <= 10);
    let abbr: bool = kani::any();
    let input = &bytes[..len];
    let r = parse_week_day_name(input, if abbr { NameStyle::AbbrCapital } else { NameStyle::Upper });
    let mut want: Option<(usize, usize)> = None;
    let mut i = 0;
    while i < 7 {
        let pat: &[u8] = if abbr { &REF_DAYS[i][..3] } else { REF_DAYS[i] };
        if want.is_none() && ci(input, pat) {
            want = Some((i + 1, pat.len()));
        }
        i += 1;
    }
    match want {
        Some((d, n)) => {
            assert!(r.is_ok());
            let (wd, rem) = r.unwrap();
            assert!(wd as usize == d);
            assert!(rem.len() == len - n);
        }
        None => assert!(r.is_err()),
    }
}

// =========================================================================================
// C04: per-token rendering for every field record of every type
// =========================================================================================
/// a value that converts into an arbitrary (symbolic) field record and carries the type flags of the real type T;
/// the six real `From<T> for NaiveDateTime` impls are proved in Verus to produce exactly such records
#[derive(Clone, Copy)]
pub struct Probe<T: DateTimeFormat> {
    pub year: i32,
    pub month: u32,
    pub day: u32,
    pub hour: u32,
    pub minute: u32,
    pub sec: u32,
    pub usec: u32,
    pub negative: bool,
    pub date: Option<Date>,
    pub _t: core::marker::PhantomData<T>,
}

impl<T: DateTimeFormat> From<Probe<T>> for NaiveDateTime {
    fn from(p: Probe<T>) -> NaiveDateTime {
        NaiveDateTime { year: p.year, month: p.month, day: p.day, hour: p.hour, minute: p.minute, sec: p.sec, usec: p.usec, ampm: None, negative: p.negative }
    }
}

/// parsing into a Probe returns the field record the parser built (the value conversion is the Verus half)
pub struct Parsed {
    pub dt: NaiveDateTime,
}

impl<T: DateTimeFormat> TryFrom<NaiveDateTime> for Probe<T> {
    type Error = Error;
    fn try_from(dt: NaiveDateTime) -> Result<Self> {
        Ok(Probe { year: dt.year, month: dt.month, day: dt.day, hour: dt.hour, minute: dt.minute, sec: dt.sec, usec: dt.usec,
                   negative: dt.negative, date: None, _t: core::marker::PhantomData })
    }
}

impl<T: DateTimeFormat> DateTime for Probe<T> {
    fn year(&self) -> Option<i32> { None }
    fn month(&self) -> Option<i32> { None }
    fn day(&self) -> Option<i32> { None }
    fn hour(&self) -> Option<i32> { None }
    fn minute(&self) -> Option<i32> { None }
    fn second(&self) -> Option<f64> { None }
    fn date(&self) -> Option<Date> { self.date }
}

impl<T: DateTimeFormat> DateTimeFormat for Probe<T> {
    const YEAR_MAX_LENGTH: usize = T::YEAR_MAX_LENGTH;
    const MONTH_MAX_LENGTH: usize = T::MONTH_MAX_LENGTH;
    const DAY_MAX_LENGTH: usize = T::DAY_MAX_LENGTH;
    const HOUR_MAX_LENGTH: usize = T::HOUR_MAX_LENGTH;
    const MINUTE_MAX_LENGTH: usize = T::MINUTE_MAX_LENGTH;
    const SECOND_MAX_LENGTH: usize = T::SECOND_MAX_LENGTH;
    const DAY_OF_YEAR_MAX_LENGTH: usize = T::DAY_OF_YEAR_MAX_LENGTH;
    const HAS_DATE: bool = T::HAS_DATE;
    const HAS_TIME: bool = T::HAS_TIME;
    const HAS_FRACTION: bool = T::HAS_FRACTION;
    const IS_INTERVAL_YM: bool = T::IS_INTERVAL_YM;
    const IS_INTERVAL_DT: bool = T::IS_INTERVAL_DT;
}

/// the field records the six From<T> impls can produce (ranges proved in Verus)
fn any_probe<T: DateTimeFormat>() -> Probe<T> {
    let p = Probe::<T> { year: kani::any(), month: kani::any(), day: kani::any(), hour: kani::any(), minute: kani::any(), sec: kani::any(),
                         usec: kani::any(), negative: kani::any(), date: None, _t: core::marker::PhantomData };
    kani::assume(p.hour < 24 && p.minute < 60 && p.sec < 60 && p.usec < 1_000_000);
    if T::HAS_DATE {
        kani::assume(k_date_ok(p.year as i64, p.month as i64, p.day as i64));
        kani::assume(!p.negative);
    } else if T::IS_INTERVAL_YM {
        kani::assume(p.year >= 0 && p.year <= 178_000_000 && p.month < 12);
    } else if T::IS_INTERVAL_DT {
        kani::assume(p.day <= 100_000_000);
    }
    p
}

fn one_field(f: Field) -> Formatter {
    let mut fields = StackVec::new();
    fields.push(f);
    Formatter { fields, format_exact: false }
}

fn two(b: &mut [u8; 12], at: usize, v: u32) {
    b[at] = b'0' + ((v / 10) % 10) as u8;
    b[at + 1] = b'0' + (v % 10) as u8;
}

/// sign prefix: '-' for a negative record, '+' for a non-negative interval, nothing otherwise
fn sign_len<T: DateTimeFormat>(p: &Probe<T>, out: &mut [u8; 12]) -> usize {
    if p.negative {
        out[0] = b'-';
        1
    } else if T::IS_INTERVAL_YM || T::IS_INTERVAL_DT {
        out[0] = b'+';
        1
    } else {
        0
    }
}

fn render_two_digit<T: DateTimeFormat>(field: Field, applies: bool, pick: fn(&Probe<T>) -> u32) {
    let p = any_probe::<T>();
    let fmt = one_field(field);
    let mut w = Sink::new();
    let r = fmt.format(p, &mut w);
    if applies {
        assert!(r.is_ok());
        let mut exp = [0u8; 12];
        let n = sign_len(&p, &mut exp);
        two(&mut exp, n, pick(&p));
        assert!(w.eq_bytes(&exp[..n + 2]));
    } else {
        assert!(r.is_err());
    }
}

fn render_two_digit_all(mk: fn() -> Field, date: bool, time: bool, ym: bool, dt: bool, pick_d: fn(&Probe<Date>) -> u32, pick_t: fn(&Probe<Time>) -> u32,
                        pick_ts: fn(&Probe<Timestamp>) -> u32, pick_ym: fn(&Probe<IntervalYM>) -> u32, pick_dt: fn(&Probe<IntervalDT>) -> u32) {
    render_two_digit::<Date>(mk(), date, pick_d);
    render_two_digit::<Time>(mk(), time, pick_t);
    render_two_digit::<Timestamp>(mk(), date || time, pick_ts);
    render_two_digit::<IntervalYM>(mk(), ym, pick_ym);
    render_two_digit::<IntervalDT>(mk(), dt, pick_dt);
}

#[kani::proof]
#[kani::unwind(50)]
#[kani::stub(crate::util::try_format, stub_try_format)]
fn fmt_token_month_minute_second_hour24() {
    render_two_digit_all(|| Field::Month, true, false, true, false, |p| p.month, |p| p.month, |p| p.month, |p| p.month, |p| p.month);
    render_two_digit_all(|| Field::Minute, false, true, false, true, |p| p.minute, |p| p.minute, |p| p.minute, |p| p.minute, |p| p.minute);
    render_two_digit_all(|| Field::Second, false, true, false, true, |p| p.sec, |p| p.sec, |p| p.sec, |p| p.sec, |p| p.sec);
    render_two_digit_all(|| Field::Hour24, false, true, false, true, |p| p.hour, |p| p.hour, |p| p.hour, |p| p.hour, |p| p.hour);
}

fn h12(h: u32) -> u32 {
    if h % 12 == 0 { 12 } else { h % 12 }
}

#[kani::proof]
#[kani::unwind(50)]
#[kani::stub(crate::util::try_format, stub_try_format)]
fn fmt_token_hour12_day() {
    // 12-hour clock: not for day-time intervals
    render_two_digit_all(|| Field::Hour12, false, true, false, false, |p| h12(p.hour), |p| h12(p.hour), |p| h12(p.hour), |p| 0, |p| 0);
    // DD on date-bearing types
    render_two_digit::<Date>(Field::Day, true, |p| p.day);
    render_two_digit::<Timestamp>(Field::Day, true, |p| p.day);
    render_two_digit::<Time>(Field::Day, false, |p| 0);
    render_two_digit::<IntervalYM>(Field::Day, false, |p| 0);
}

fn digits_of(mut v: u32, out: &mut [u8; 12], at: usize, width: usize) -> usize {
    // at least `width` digits, zero padded
    let mut tmp = [0u8; 10];
    let mut n = 0;
    loop {
        tmp[n] = b'0' + (v % 10) as u8;
        v /= 10;
        n += 1;
        if v == 0 {
            break;
        }
    }
    let total = if n < width { width } else { n };
    let mut i = 0;
    while i < total {
        out[at + i] = if total - 1 - i < n { tmp[total - 1 - i] } else { b'0' };
        i += 1;
    }
    total
}

/// interval day count: at least two digits, all digits of larger counts, once-only sign
#[kani::proof]
#[kani::unwind(50)]
#[kani::stub(crate::util::try_format, stub_try_format)]
fn fmt_token_interval_day_bounded() {
    let p = any_probe::<IntervalDT>();
    kani::assume(p.day < 1000);
    let fmt = one_field(Field::Day);
    let mut w = Sink::new();
    let r = fmt.format(p, &mut w);
    assert!(r.is_ok());
    let mut exp = [0u8; 12];
    let n = sign_len(&p, &mut exp);
    let k = digits_of(p.day, &mut exp, n, 2);
    assert!(w.eq_bytes(&exp[..n + k]));
}

fn year_check<T: DateTimeFormat>(n: u8) {
    let p = any_probe::<T>();
    let fmt = one_field(Field::Year(n));
    let mut w = Sink::new();
    let r = fmt.format(p, &mut w);
    if T::HAS_DATE {
        assert!(r.is_ok());
        let modulus: u32 = match n { 1 => 10, 2 => 100, 3 => 1000, _ => 10000 };
        let mut exp = [0u8; 12];
        let k = digits_of(p.year as u32 % modulus, &mut exp, 0, n as usize);
        assert!(k == n as usize);
        assert!(w.eq_bytes(&exp[..k]));
    } else if T::IS_INTERVAL_YM {
        assert!(r.is_ok());
        let mut exp = [0u8; 12];
        let s = sign_len(&p, &mut exp);
        let k = digits_of(p.year as u32, &mut exp, s, n as usize);
        assert!(w.eq_bytes(&exp[..s + k]));
    } else {
        assert!(r.is_err());
    }
}

#[kani::proof]
#[kani::unwind(50)]
#[kani::stub(crate::util::try_format, stub_try_format)]
fn fmt_token_year() {
    let n: u8 = kani::any();
    kani::assume(n >= 1 && n <= 4);
    year_check::<Date>(n);
    year_check::<Timestamp>(n);
    year_check::<IntervalYM>(n);
    year_check::<Time>(n);
    year_check::<IntervalDT>(n);
}

fn fraction_check<T: DateTimeFormat>(p_opt: Option<u8>) {
    let p = any_probe::<T>();
    let fmt = one_field(Field::Fraction(p_opt));
    let mut w = Sink::new();
    let r = fmt.format(p, &mut w);
    if T::HAS_FRACTION {
        assert!(r.is_ok());
        let digits = p_opt.unwrap_or(6) as usize;
        // truncated (not rounded) to `digits` digits; beyond six, zero filled
        let mut v = p.usec as u64;
        let mut k = 6;
        while k > digits { v /= 10; k -= 1; }
        while k < digits { v *= 10; k += 1; }
        let mut exp = [0u8; 12];
        let s = sign_len(&p, &mut exp);
        let n = digits_of(v as u32, &mut exp, s, digits);
        assert!(n == digits);
        assert!(w.eq_bytes(&exp[..s + n]));
    } else {
        assert!(r.is_err());
    }
}

#[kani::proof]
#[kani::unwind(50)]
#[kani::stub(crate::util::try_format, stub_try_format)]
fn fmt_token_fraction_1_to_6() {
    let d: u8 = kani::any();
    kani::assume(d >= 1 && d <= 6);
    let p = if kani::any() { Some(d) } else { None };
    fraction_check::<Time>(p);
    fraction_check::<Timestamp>(p);
    fraction_check::<IntervalDT>(p);
    fraction_check::<Date>(p);
    fraction_check::<IntervalYM>(p);
}

#[kani::proof]
#[kani::unwind(50)]
#[kani::stub(crate::util::try_format, stub_try_format)]
fn fmt_token_fraction_7() {
    fraction_check::<Time>(Some(7));
}

#[kani::proof]
#[kani::unwind(50)]
#[kani::stub(crate::util::try_format, stub_try_format)]
fn fmt_token_fraction_8() {
    fraction_check::<Time>(Some(8));
}

#[kani::proof]
#[kani::unwind(50)]
#[kani::stub(crate::util::try_format, stub_try_format)]
fn fmt_token_fraction_9() {
    fraction_check::<Time>(Some(9));
}

fn ampm_check<T: DateTimeFormat>(style: AmPmStyle, am: &[u8], pm: &[u8]) {
    let p = any_probe::<T>();
    let fmt = one_field(Field::AmPm(style));
    let mut w = Sink::new();
    let r = fmt.format(p, &mut w);
    if T::HAS_TIME && !T::IS_INTERVAL_DT {
        assert!(r.is_ok());
        assert!(w.eq_bytes(if p.hour < 12 { am } else { pm }));
    } else {
        assert!(r.is_err());
    }
}

#[kani::proof]
#[kani::unwind(50)]
#[kani::stub(crate::util::try_format, stub_try_format)]
fn fmt_token_ampm() {
    ampm_check::<Time>(AmPmStyle::Upper, b"AM", b"PM");
    ampm_check::<Time>(AmPmStyle::Lower, b"am", b"pm");
    ampm_check::<Timestamp>(AmPmStyle::UpperDot, b"A.M.", b"P.M.");
    ampm_check::<Timestamp>(AmPmStyle::LowerDot, b"a.m.", b"p.m.");
    ampm_check::<Date>(AmPmStyle::Upper, b"AM", b"PM");
    ampm_check::<IntervalDT>(AmPmStyle::Upper, b"AM", b"PM");
    ampm_check::<IntervalYM>(AmPmStyle::Lower, b"am", b"pm");
}

fn punct_check<T: DateTimeFormat>() {
    let p = any_probe::<T>();
    let mut fields = StackVec::new();
    fields.push(Field::Hyphen);
    fields.push(Field::Colon);
    fields.push(Field::Slash);
    fields.push(Field::Backslash);
    fields.push(Field::Comma);
    fields.push(Field::Dot);
    fields.push(Field::Semicolon);
    fields.push(Field::T);
    let nb: u8 = kani::any();
    kani::assume(nb >= 1 && nb <= 20);
    fields.push(Field::Blank(nb));
    let fmt = Formatter { fields, format_exact: false };
    let mut w = Sink::new();
    assert!(fmt.format(p, &mut w).is_ok());
    let mut exp = [b' '; 40];
    let mut s12 = [0u8; 12];
    let s = sign_len(&p, &mut s12);
    if s == 1 { exp[0] = s12[0]; }
    let lit = b"-:/\\,.;T";
    let mut i = 0;
    while i < 8 { exp[s + i] = lit[i]; i += 1; }
    assert!(w.eq_bytes(&exp[..s + 8 + nb as usize]));
}

#[kani::proof]
#[kani::unwind(50)]
#[kani::stub(crate::util::try_format, stub_try_format)]
fn fmt_punctuation_blanks_sign() {
    punct_check::<Date>();
    punct_check::<Time>();
    punct_check::<IntervalDT>();
    punct_check::<IntervalYM>();
}

fn name_bytes(name: &[u8], style: NameStyle, out: &mut [u8; 12]) -> usize {
    let (abbr, upper, lower_all) = match style {
        NameStyle::Capital => (false, false, false),
        NameStyle::Lower => (false, false, true),
        NameStyle::Upper => (false, true, false),
        NameStyle::AbbrCapital => (true, false, false),
        NameStyle::AbbrLower => (true, false, true),
        NameStyle::AbbrUpper => (true, true, false),
    };
    let n = if abbr { 3 } else { name.len() };
    let mut i = 0;
    while i < n {
        let c = name[i];
        out[i] = if upper || (i == 0 && !lower_all) { c - 32 } else { c };
        i += 1;
    }
    n
}

fn any_style() -> NameStyle {
    let k: u8 = kani::any();
    kani::assume(k < 6);
    match k { 0 => NameStyle::Capital, 1 => NameStyle::Lower, 2 => NameStyle::Upper, 3 => NameStyle::AbbrCapital, 4 => NameStyle::AbbrLower, _ => NameStyle::AbbrUpper }
}

#[kani::proof]
#[kani::unwind(50)]
#[kani::stub(crate::util::try_format, stub_try_format)]
fn fmt_token_month_name() {
    let style = any_style();
    let p = any_probe::<Date>();
    let fmt = one_field(Field::MonthName(style));
    let mut w = Sink::new();
    assert!(fmt.format(p, &mut w).is_ok());
    let mut exp = [0u8; 12];
    let n = name_bytes(REF_MONTHS[p.month as usize - 1], style, &mut exp);
    assert!(w.eq_bytes(&exp[..n]));
    let q = any_probe::<Time>();
    let mut w2 = Sink::new();
    assert!(one_field(Field::MonthName(style)).format(q, &mut w2).is_err());
    let q = any_probe::<IntervalYM>();
    let mut w3 = Sink::new();
    assert!(one_field(Field::MonthName(style)).format(q, &mut w3).is_err());
}

/// weekday name / number: the weekday of the record's date (date() given or recomputed from the fields)
#[kani::proof]
#[kani::unwind(50)]
#[kani::stub(crate::util::try_format, stub_try_format)]
#[kani::stub(crate::common::date2julian, crate::kverif::date2julian_by_contract)]
fn fmt_token_weekday() {
    let style = any_style();
    let mut p = any_probe::<Date>();
    let n = k_dn(p.year as i64, p.month as i64, p.day as i64);
    if kani::any() {
        p.date = Some(Date::try_from_days(n as i32).unwrap());
    }
    let wd = k_wd(n);
    let fmt = one_field(Field::DayName(style));
    let mut w = Sink::new();
    assert!(fmt.format(p, &mut w).is_ok());
    let mut exp = [0u8; 12];
    let k = name_bytes(REF_DAYS[wd as usize - 1], style, &mut exp);
    assert!(w.eq_bytes(&exp[..k]));
    let mut w2 = Sink::new();
    assert!(one_field(Field::DayOfWeek).format(p, &mut w2).is_ok());
    let one = [b'0' + wd as u8];
    assert!(w2.eq_bytes(&one));
    let q = any_probe::<Time>();
    let mut w3 = Sink::new();
    assert!(one_field(Field::DayOfWeek).format(q, &mut w3).is_err());
}

/// DDD, W, WW: day of year in three digits; weeks counted in 7-day blocks from the 1st
#[kani::proof]
#[kani::unwind(50)]
#[kani::stub(crate::util::try_format, stub_try_format)]
fn fmt_token_day_of_year_weeks() {
    let p = any_probe::<Timestamp>();
    let doy = (k_cum(p.month as i64) + (if p.month > 2 && k_leap(p.year as i64) { 1 } else { 0 }) + p.day as i64) as u32;
    let mut w = Sink::new();
    assert!(one_field(Field::DayOfYear).format(p, &mut w).is_ok());
    let mut exp = [0u8; 12];
    let k = digits_of(doy, &mut exp, 0, 3);
    assert!(k == 3 && w.eq_bytes(&exp[..3]));
    let mut w2 = Sink::new();
    assert!(one_field(Field::WeekOfYear).format(p, &mut w2).is_ok());
    let mut e2 = [0u8; 12];
    two(&mut e2, 0, (doy - 1) / 7 + 1);
    assert!(w2.eq_bytes(&e2[..2]));
    let mut w3 = Sink::new();
    assert!(one_field(Field::WeekOfMonth).format(p, &mut w3).is_ok());
    let e3 = [b'0' + ((p.day - 1) / 7 + 1) as u8];
    assert!(w3.eq_bytes(&e3));
    let q = any_probe::<IntervalDT>();
    let mut w4 = Sink::new();
    assert!(one_field(Field::DayOfYear).format(q, &mut w4).is_err());
}
