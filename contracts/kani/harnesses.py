"""Registry of the Kani obligations (contracts/kani/*.rs).

props     properties the harness carries
complete  True: loop-free (or fixed small loops with unwinding assertions) over the full input domain of the
          function under contract -> counted as a discharged obligation.  False: bounded stand-in, reported apart.
bound     the stated bound of a bounded harness
tier      'quick' harnesses run in both tiers, 'thorough' ones only there
assumes   contracts the harness assumes (stubs), with the obligation that discharges them
"""

D2J_STUB = ('common::date2julian replaced by its contract (rata + 1721426, precondition asserted at every call); '
            'discharged in Verus by `common :: fn date2julian`')
EXTRACT_STUB = ('Date::extract replaced by its contract (unique valid triple with the same day number); '
                'discharged in Verus by `date :: impl Date / fn extract` + lemma_civil_unique')

H = {
    # ---- C01
    'date_day_of_week': dict(props=['C01', 'C10', 'C11', 'C03'], what='Date::day_of_week(d) as int == wd(d.days()) for every valid date', timeout_s=60),
    'weekday_month_from_usize': dict(props=['C01', 'C04', 'C03'], what='WeekDay::from(1..=7), Month::from(1..=12) return the variant with that discriminant', timeout_s=30),
    # ---- C10/C11 fn-pointer tables
    'date_trunc_iso_week': dict(props=['C10', 'C17', 'C02', 'C03'], what='trunc_iso_week == n - (wd(n)+5)%7 (Monday on or before), every valid date', timeout_s=60),
    'date_trunc_sunday_start_week': dict(props=['C10', 'C17', 'C02', 'C03'], what='trunc_sunday_start_week == n - (wd(n)-1), Err iff before 0001-01-01', timeout_s=60),
    'date_round_iso_week': dict(props=['C11', 'C17', 'C02', 'C03'], what='round_iso_week: later Monday iff offset >= 4 days; Err iff past max', timeout_s=60),
    'date_round_sunday_start_week': dict(props=['C11', 'C17', 'C02', 'C03'], what='round_sunday_start_week: later Sunday iff offset >= 4 days', timeout_s=60),
    'date_round_week_internal': dict(props=['C11', 'C17', 'C02', 'C03'], what='round_week_internal(year): week anchored on 1 January of `year`', assumes=[D2J_STUB], timeout_s=300),
    'date_round_week_internal_direct': dict(props=['C11'], tier='thorough', what='same without the date2julian stub', timeout_s=1800),
    'date_round_month_start_week_internal': dict(props=['C11', 'C17', 'C02', 'C03'], what='round_month_start_week_internal(day): week anchored on the 1st', timeout_s=60),
    'date_trunc_iso_year': dict(props=['C10', 'C11', 'C17', 'C02', 'C03'], quick_only_for=['C10'], what='trunc_iso_year == Monday on or before 4 January of the ISO year (date_to_iso_year observed through it)',
                                assumes=[EXTRACT_STUB, D2J_STUB], timeout_s=600),
    'date_trunc_iso_year_direct': dict(props=['C10', 'C11'], tier='thorough', what='same without the extract stub', timeout_s=2400),
    # ---- derived comparison / hashing
    'derived_cmp_date': dict(props=['C01', 'C07'], what='derived Eq/Ord/PartialOrd on Date == integer comparison of days()', timeout_s=30),
    'derived_cmp_time': dict(props=['C07'], what='derived Eq/Ord on Time == comparison of usecs()', timeout_s=30),
    'derived_cmp_timestamp': dict(props=['C07', 'C17'], what='derived Eq/Ord on Timestamp == comparison of usecs() (assumed in the Verus unit)', timeout_s=30),
    'derived_cmp_intervals': dict(props=['C13'], what='derived Eq/Ord on IntervalYM/IntervalDT == numeric', timeout_s=30),
    'derived_eq_sign': dict(props=['C13', 'C04'], what='derived PartialEq on Sign is structural; discriminants +1/-1 (assumed in the Verus unit)', timeout_s=30),
    'derived_hash': dict(props=['C07'], what='Hash feeds exactly the underlying integer to the hasher', timeout_s=60),
    # ---- Verus-assumed std-trait method without a `requires`
    'ym_try_from_naive': dict(props=['C05', 'C06', 'C13', 'C03'], what='TryFrom<NaiveDateTime> for IntervalYM: exact value / error for every field record with |year| < 2*10^9',
                              assumes=['|dt.year| < 2*10^9 (nine-digit year scanner; discharged by kani::scan_parse_number_bounded)'], timeout_s=60),
    'month_day_of_days': dict(props=['C05', 'C03'], what='the_month_day_of_days(d, leap) for all 365+366 pairs', timeout_s=60),
    'second_accessor_time': dict(tier='thorough', props=['C07'], what='Time::second() == (s*10^6+us)/10^6, floor == s', timeout_s=120),
    'second_accessor_timestamp': dict(tier='thorough', props=['C07'], what='Timestamp::second() agrees with time().extract()', timeout_s=300),
    'second_accessor_interval_dt': dict(tier='thorough', props=['C13'], what='IntervalDT::second() signed; None for YM and Date', timeout_s=300),
    # ---- C14
    'dt_mul_f64_unit': dict(props=['C14', 'C02', 'C03'], what='IntervalDT(+-1).mul_f64(k), Time(1).mul_f64(k) for EVERY double k: classification, truncation, range gate', timeout_s=120),
    'ym_mul_f64_unit': dict(props=['C14', 'C02', 'C03'], what='IntervalYM(+-1).mul_f64(k) for every double k', timeout_s=120),
    'mul_f64_zero': dict(props=['C14'], what='ZERO.mul_f64(k): 0 for finite k, InvalidNumber for NaN/inf', timeout_s=120),
    'dt_mul_f64_contract': dict(tier='thorough', props=['C14', 'C02', 'C03'], what='IntervalDT::mul_f64 == classify(trunc(IEEE product)) for every interval x every double', timeout_s=3600),
    'ym_mul_f64_contract': dict(tier='thorough', props=['C14', 'C02', 'C03'], what='IntervalYM::mul_f64 == classify(trunc(IEEE product))', timeout_s=300),
    'dt_div_f64_contract': dict(tier='thorough', props=['C14', 'C02', 'C03'], what='IntervalDT/Time::div_f64: DivideByZero first, then classify(trunc(IEEE quotient))', timeout_s=300),
    'ym_div_f64_contract': dict(tier='thorough', props=['C14', 'C02', 'C03'], what='IntervalYM::div_f64', timeout_s=300),
    'dt_mul_f64_integer_factors_bounded': dict(tier='thorough', props=['C14'], complete=False, bound='|x| < 2^40 us, integer factor |k| < 4096', what='exact x*k and sign symmetry', timeout_s=900),
    'dt_div_f64_exact_quotients_bounded': dict(tier='thorough', props=['C14'], complete=False, bound='|q| < 10^6, divisor 1..=100', what='(q*k)/k == q exactly', timeout_s=900),
    # ---- C19 lexer
    'lex_picture_len5_bounded': dict(props=['C19', 'C03'], complete=False, bound='every byte string of length <= 5 (every byte value)', mem_heavy=True,
                                     what='FormatParser accepts exactly the reference longest-match token sequences; same boundaries, fields, name styles', timeout_s=900),
    'lex_picture_len6_bounded': dict(props=['C19', 'C03'], complete=False, tier='thorough', bound='every byte string of length <= 6', mem_heavy=True, what='same, 6 bytes', timeout_s=7200),
    'lex_first_token_bounded': dict(props=['C19', 'C03'], complete=False, bound='first token of every byte string of length <= 8', mem_heavy=True,
                                    what='next() returns the longest documented token at the start of the window', timeout_s=900),
    'lex_blank_run_bounded': dict(props=['C19', 'C03'], complete=False, bound='blank runs of length 1..=600', what='blank run reproduced with the same total length, no overflow', timeout_s=900),
    'picture_token_limit': dict(props=['C19'], what='36 tokens accepted, 37 rejected, empty picture accepted (concrete)', timeout_s=300),
    # ---- scanners
    'scan_parse_number_bounded': dict(props=['C05', 'C03', 'C18'], complete=False, bound='input <= 12 bytes, max_len 1..=9', what='parse_number contract: sign, maximal munch up to max_len, value, remainder', timeout_s=600),
    'scan_parse_fraction_short_bounded': dict(props=['C05', 'C03'], complete=False, bound='input <= 8 bytes, max_len 1..=6', what='parse_fraction: exact scaling to microseconds', timeout_s=600),
    'scan_parse_fraction_round7': dict(props=['C05'], what='7 fraction digits rounded half-up (all 10^7 values)', tier='thorough', timeout_s=3600),
    'scan_parse_fraction_round8': dict(props=['C05'], what='8 fraction digits rounded half-up', tier='thorough', timeout_s=3600),
    'scan_parse_fraction_round9': dict(props=['C05'], what='9 fraction digits rounded half-up', tier='thorough', timeout_s=3600),
    'scan_week_day_number': dict(props=['C05', 'C03'], what="parse_week_day_number: '1'..='7' only, every input of <= 3 bytes (reads one byte)", timeout_s=120),
    'scan_ampm_bounded': dict(props=['C05', 'C03'], complete=False, bound='input <= 6 bytes', what='parse_ampm: case-insensitive AM/PM or A.M./P.M. per style, empty = none', timeout_s=300),
    'scan_month_name_bounded': dict(props=['C05', 'C03'], complete=False, bound='input <= 10 bytes', what='parse_month_name: full name before abbreviation, any case', timeout_s=900),
    'scan_week_day_name_bounded': dict(props=['C05', 'C03'], complete=False, bound='input <= 10 bytes', what='parse_week_day_name per style', timeout_s=900),
    # ---- C04 per-token rendering over every field record
    'fmt_token_month_minute_second_hour24': dict(props=['C04', 'C03'], what='MM MI SS HH24: two digits, sign prefix, Err where inapplicable, all six flag sets', timeout_s=900),
    'fmt_token_hour12_day': dict(props=['C04', 'C03'], what='HH/HH12 and DD', timeout_s=900),
    'fmt_token_interval_day_bounded': dict(props=['C04', 'C03'], complete=False, bound='interval day count < 1000', what='interval DD: >= 2 digits, all digits', timeout_s=900),
    'fmt_token_year': dict(props=['C04', 'C03'], what='Y..YYYY last n digits for dates, full signed year for YM intervals', timeout_s=900),
    'fmt_token_fraction_1_to_6': dict(props=['C04', 'C03'], what='FF, FF1..FF6 truncation for every microsecond value', timeout_s=1800),
    'fmt_token_fraction_7': dict(props=['C04'], tier='thorough', what='FF7', timeout_s=3600),
    'fmt_token_fraction_8': dict(props=['C04'], tier='thorough', what='FF8', timeout_s=3600),
    'fmt_token_fraction_9': dict(props=['C04'], tier='thorough', what='FF9', timeout_s=3600),
    'fmt_token_ampm': dict(props=['C04', 'C03'], what='AM/PM by hour < 12 in the four styles', timeout_s=600),
    'fmt_punctuation_blanks_sign': dict(props=['C04', 'C03'], what='punctuation, T, blanks copied; interval sign once', timeout_s=600),
    'fmt_token_month_name': dict(props=['C04', 'C03'], what='English month names in six styles', timeout_s=900),
    'fmt_token_weekday': dict(props=['C04', 'C03'], what='weekday name/number of the record date', assumes=[D2J_STUB], timeout_s=900),
    'fmt_token_day_of_year_weeks': dict(props=['C04', 'C03'], what='DDD, W, WW', timeout_s=900),
}
