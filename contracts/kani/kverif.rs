//! Kani obligations injected into a scratch copy of the crate as `#[cfg(kani)] mod kverif;`
//! (crate root child: sees the public API and pub(crate) items).  Every harness here is
//! loop-free over the full input domain of the function under contract unless its name ends
//! in `_bounded`; the assertion is the function's contract, written with the executable twins
//! of the spec functions (twins.rs, proved equal to the Verus spec).
#![allow(unused_imports, dead_code, unused_variables)]

#[path = "twins.rs"]
pub mod twins;
use twins::*;

use crate::common::*;
use crate::{Date, DateTime, Error, IntervalDT, IntervalYM, Round, Time, Timestamp, Trunc};
use core::cmp::Ordering;
use core::convert::TryFrom;

// ------------------------------------------------------------------ generators
pub fn any_date() -> Date {
    let n: i32 = kani::any();
    kani::assume(n as i64 >= K_DATE_MIN && n as i64 <= K_DATE_MAX);
    Date::try_from_days(n).unwrap()
}

/// a valid civil triple; every valid Date is k_dn of exactly one of these (Verus: lemma_civil_props)
pub fn any_ymd() -> (i32, u32, u32) {
    let y: i32 = kani::any();
    let m: u32 = kani::any();
    let d: u32 = kani::any();
    kani::assume(k_date_ok(y as i64, m as i64, d as i64));
    (y, m, d)
}

pub fn any_time() -> Time {
    let n: i64 = kani::any();
    kani::assume(n >= 0 && n < K_US_DAY);
    Time::try_from_usecs(n).unwrap()
}

pub fn any_timestamp() -> Timestamp {
    let n: i64 = kani::any();
    kani::assume(n >= K_TS_MIN && n <= K_TS_MAX);
    Timestamp::try_from_usecs(n).unwrap()
}

pub fn any_ym() -> IntervalYM {
    let n: i32 = kani::any();
    kani::assume(n >= -2_136_000_000 && n <= 2_136_000_000);
    IntervalYM::try_from_months(n).unwrap()
}

pub fn any_dt() -> IntervalDT {
    let n: i64 = kani::any();
    kani::assume(n >= -8_640_000_000_000_000_000 && n <= 8_640_000_000_000_000_000);
    IntervalDT::try_from_usecs(n).unwrap()
}

/// `Date::extract` replaced by its Verus-proved contract (DESIGN.md 2.3): the unique valid triple whose
/// day number is the receiver.  Used only by harnesses that are about something else.
pub fn extract_by_contract(d: Date) -> (i32, u32, u32) {
    let (y, m, dd) = any_ymd();
    kani::assume(k_dn(y as i64, m as i64, dd as i64) == d.days() as i64);
    (y, m, dd)
}

/// `date2julian` replaced by its Verus-proved contract: precondition asserted, result = rata + 1721426
pub fn date2julian_by_contract(year: i32, month: u32, day: u32) -> i32 {
    assert!(year >= -4700 && year <= 100000 && month >= 1 && month <= 12 && day <= 31);
    (k_dn(year as i64, month as i64, day as i64) + 2440588) as i32
}

fn date_result_matches(r: Result<Date, Error>, target: i64) {
    if target >= K_DATE_MIN && target <= K_DATE_MAX {
        assert!(r.is_ok());
        assert!(r.unwrap().days() as i64 == target);
    } else {
        assert!(r == Err(Error::DateOutOfRange));
    }
}

// ------------------------------------------------------------------ C01: weekday
#[kani::proof]
fn date_day_of_week() {
    let d = any_date();
    let w = d.day_of_week();
    assert!(w as i64 == k_wd(d.days() as i64));
}

#[kani::proof]
fn weekday_month_from_usize() {
    let i: usize = kani::any();
    kani::assume(i >= 1 && i <= 12);
    assert!(crate::Month::from(i) as usize == i);
    if i <= 7 {
        assert!(crate::WeekDay::from(i) as usize == i);
    }
}

// ------------------------------------------------------------------ C10 / C11: function-pointer tables on Date
#[kani::proof]
fn date_trunc_iso_week() {
    let d = any_date();
    let n = d.days() as i64;
    let r = d.trunc_iso_week();
    assert!(r.is_ok());
    assert!(r.unwrap().days() as i64 == n - (k_wd(n) + 5) % 7);
}

#[kani::proof]
fn date_trunc_sunday_start_week() {
    let d = any_date();
    let n = d.days() as i64;
    let target = n - (k_wd(n) - 1);
    let r = d.trunc_sunday_start_week();
    if target >= K_DATE_MIN && target <= K_DATE_MAX {
        assert!(r.is_ok() && r.unwrap().days() as i64 == target);
    } else {
        assert!(r.is_err());
    }
}

#[kani::proof]
fn date_round_iso_week() {
    let d = any_date();
    let n = d.days() as i64;
    let off = (k_wd(n) + 5) % 7;
    let target = if off >= 4 { n - off + 7 } else { n - off };
    date_result_matches(d.round_iso_week(), target);
}

#[kani::proof]
fn date_round_sunday_start_week() {
    let d = any_date();
    let n = d.days() as i64;
    let off = k_wd(n) - 1;
    let target = if off >= 4 { n - off + 7 } else { n - off };
    date_result_matches(d.round_sunday_start_week(), target);
}

#[kani::proof]
#[kani::stub(crate::common::date2julian, date2julian_by_contract)]
fn date_round_week_internal() {
    let d = any_date();
    let n = d.days() as i64;
    let year: i32 = kani::any();
    kani::assume(year >= 1 && year <= 9999);
    let first = k_dn(year as i64, 1, 1);
    kani::assume(n - first >= 0 && n - first <= 366);
    let off = (n - first) % 7;
    let target = if off >= 4 { n - off + 7 } else { n - off };
    date_result_matches(d.round_week_internal(year), target);
}

#[kani::proof]
fn date_round_week_internal_direct() {
    let d = any_date();
    let n = d.days() as i64;
    let year: i32 = kani::any();
    kani::assume(year >= 1 && year <= 9999);
    let first = k_dn(year as i64, 1, 1);
    kani::assume(n - first >= 0 && n - first <= 366);
    let off = (n - first) % 7;
    let target = if off >= 4 { n - off + 7 } else { n - off };
    date_result_matches(d.round_week_internal(year), target);
}

#[kani::proof]
fn date_round_month_start_week_internal() {
    let d = any_date();
    let n = d.days() as i64;
    let day: i32 = kani::any();
    kani::assume(day >= 1 && day <= 31);
    let off = ((day - 1) % 7) as i64;
    let target = if off >= 4 { n - off + 7 } else { n - off };
    date_result_matches(d.round_month_start_week_internal(day), target);
}

/// contract of the private `Date::date_to_iso_year` is observed through `trunc_iso_year`
/// (= iso_start(iso_year_of(n))), with `extract` replaced by its contract
#[kani::proof]
#[kani::stub(crate::date::Date::extract, extract_by_contract)]
#[kani::stub(crate::common::date2julian, date2julian_by_contract)]
fn date_trunc_iso_year() {
    let (y, m, dd) = any_ymd();
    let n = k_dn(y as i64, m as i64, dd as i64);
    let d = Date::try_from_days(n as i32).unwrap();
    let iy = k_iso_year_of(n, y as i64);
    let r = d.trunc_iso_year();
    assert!(r.is_ok());
    assert!(r.unwrap().days() as i64 == k_iso_start(iy));
}

/// the same obligation without the contract stub (thorough tier; CBMC inverts the calendar itself)
#[kani::proof]
fn date_trunc_iso_year_direct() {
    let (y, m, dd) = any_ymd();
    let n = k_dn(y as i64, m as i64, dd as i64);
    let d = Date::try_from_days(n as i32).unwrap();
    let iy = k_iso_year_of(n, y as i64);
    let r = d.trunc_iso_year();
    assert!(r.is_ok());
    assert!(r.unwrap().days() as i64 == k_iso_start(iy));
}

// ------------------------------------------------------------------ C07 / C13 / C17: derived comparison impls are numeric
#[kani::proof]
fn derived_cmp_date() {
    let a = any_date();
    let b = any_date();
    assert!((a == b) == (a.days() == b.days()));
    assert!(a.cmp(&b) == a.days().cmp(&b.days()));
    assert!(a.partial_cmp(&b) == Some(a.days().cmp(&b.days())));
    assert!((a < b) == (a.days() < b.days()));
}

#[kani::proof]
fn derived_cmp_time() {
    let a = any_time();
    let b = any_time();
    assert!((a == b) == (a.usecs() == b.usecs()));
    assert!(a.cmp(&b) == a.usecs().cmp(&b.usecs()));
    assert!(a.partial_cmp(&b) == Some(a.usecs().cmp(&b.usecs())));
}

#[kani::proof]
fn derived_cmp_timestamp() {
    let a = any_timestamp();
    let b = any_timestamp();
    assert!((a == b) == (a.usecs() == b.usecs()));
    assert!(a.cmp(&b) == a.usecs().cmp(&b.usecs()));
    assert!(a.partial_cmp(&b) == Some(a.usecs().cmp(&b.usecs())));
    assert!((a < b) == (a.usecs() < b.usecs()));
}

#[kani::proof]
fn derived_cmp_intervals() {
    let a = any_ym();
    let b = any_ym();
    assert!((a == b) == (a.months() == b.months()));
    assert!(a.cmp(&b) == a.months().cmp(&b.months()));
    assert!(a.partial_cmp(&b) == Some(a.months().cmp(&b.months())));
    let c = any_dt();
    let e = any_dt();
    assert!((c == e) == (c.usecs() == e.usecs()));
    assert!(c.cmp(&e) == c.usecs().cmp(&e.usecs()));
    assert!(c.partial_cmp(&e) == Some(c.usecs().cmp(&e.usecs())));
}

#[kani::proof]
fn derived_eq_sign() {
    use crate::Sign;
    let a: bool = kani::any();
    let b: bool = kani::any();
    let sa = if a { Sign::Positive } else { Sign::Negative };
    let sb = if b { Sign::Positive } else { Sign::Negative };
    assert!((sa == sb) == (a == b));
    assert!(Sign::Positive as i32 == 1 && Sign::Negative as i32 == -1);
}

/// Hash feeds exactly the underlying integer to the hasher
struct RecHasher { last: i64, calls: u32 }
impl core::hash::Hasher for RecHasher {
    fn finish(&self) -> u64 { 0 }
    fn write(&mut self, _bytes: &[u8]) { self.calls += 100; }
    fn write_i32(&mut self, i: i32) { self.last = i as i64; self.calls += 1; }
    fn write_i64(&mut self, i: i64) { self.last = i; self.calls += 1; }
}

#[kani::proof]
fn derived_hash() {
    use core::hash::Hash;
    let d = any_date();
    let mut h = RecHasher { last: 0, calls: 0 };
    d.hash(&mut h);
    assert!(h.calls == 1 && h.last == d.days() as i64);
    let t = any_time();
    let mut h = RecHasher { last: 0, calls: 0 };
    t.hash(&mut h);
    assert!(h.calls == 1 && h.last == t.usecs());
    let ts = any_timestamp();
    let mut h = RecHasher { last: 0, calls: 0 };
    ts.hash(&mut h);
    assert!(h.calls == 1 && h.last == ts.usecs());
}

// ------------------------------------------------------------------ C05 / C13: TryFrom<NaiveDateTime> for IntervalYM (assumed in the Verus unit)
#[kani::proof]
fn ym_try_from_naive() {
    use crate::format::NaiveDateTime;
    let mut dt = NaiveDateTime::new();
    dt.year = kani::any();
    dt.month = kani::any();
    dt.negative = kani::any();
    dt.day = kani::any();
    dt.hour = kani::any();
    // the year scanner reads at most nine digits (scanner contract, C05)
    kani::assume(dt.year > -2_000_000_000 && dt.year < 2_000_000_000);
    let year = dt.year;
    let month = dt.month;
    let negative = dt.negative;
    let r = IntervalYM::try_from(dt);
    let y: i64 = if negative { ((-(year as i64)) as u32) as i64 } else { (year as u32) as i64 };
    let mag = y * 12 + month as i64;
    let ok = month < 12 && mag <= 2_136_000_000;
    assert!(r.is_ok() == ok);
    if ok {
        assert!(r.clone().unwrap().months() as i64 == if negative { -mag } else { mag });
    }
    if y > 178_000_000 || (y == 178_000_000 && month != 0) {
        assert!(r == Err(Error::IntervalOutOfRange));
    } else if month >= 12 {
        assert!(r == Err(Error::InvalidMonth));
    }
}

// ------------------------------------------------------------------ C05: day-of-year -> (month, day)
#[kani::proof]
fn month_day_of_days() {
    let days: u32 = kani::any();
    let leap: bool = kani::any();
    kani::assume(days >= 1 && days <= if leap { 366 } else { 365 });
    let (m, d) = the_month_day_of_days(days, leap);
    assert!(m >= 1 && m <= 12);
    let adj = |mm: i64| if mm > 2 && leap { 1 } else { 0 };
    assert!(days as i64 == k_cum(m as i64) + adj(m as i64) + d as i64);
    let ml = if m == 2 { if leap { 29 } else { 28 } } else { k_mdays(1, m as i64) };
    assert!(d >= 1 && d as i64 <= ml);
}

// ------------------------------------------------------------------ C07 / C13: second() accessors
fn second_matches(sec: f64, s: u32, us: u32) {
    // whole seconds are reported exactly, the fraction is the microsecond count (both parts are exact doubles;
    // one correctly rounded division): sec * 10^6 rounds to the microsecond count
    assert!(sec >= 0.0 && sec < 60.0);
    assert!(sec.floor() == s as f64);
    assert!(sec == (s as u64 * 1_000_000 + us as u64) as f64 / 1_000_000.0);
}

/// the fractional-second accessor on a grid: ANY whole-minute part (so any magnitude up to the range limit, either sign),
/// every whole second 0..=59, five sub-second parts.  second() must be the quotient of the EXACT sub-minute count:
/// a conversion to f64 before the remainder loses the low digits above 2^53 us and is refuted here.
#[kani::proof]
fn second_accessor_interval_dt_grid_bounded() {
    let m: i64 = kani::any();
    kani::assume(m >= -144_000_000_000 && m <= 144_000_000_000);      // minutes: |m| * 6*10^7 <= 8.64*10^18
    let k: i64 = kani::any();
    kani::assume(k >= 0 && k <= 59);
    let sel: u8 = kani::any();
    let us: i64 = match sel % 5 { 0 => 0, 1 => 1, 2 => 499_999, 3 => 500_000, _ => 999_999 };
    let sub = k * 1_000_000 + us;
    let neg: bool = kani::any();
    let total = m.abs() * 60_000_000 + sub;
    kani::assume(total <= 8_640_000_000_000_000_000);
    let v = IntervalDT::try_from_usecs(if neg { -total } else { total }).unwrap();
    let q = v.second().unwrap();
    let want = sub as f64 / 1_000_000.0;
    assert!(if neg { q == -want } else { q == want });
}

#[kani::proof]
fn second_accessor_time_grid_bounded() {
    let m: i64 = kani::any();
    kani::assume(m >= 0 && m < 1440);
    let k: i64 = kani::any();
    kani::assume(k >= 0 && k <= 59);
    let sel: u8 = kani::any();
    let us: i64 = match sel % 5 { 0 => 0, 1 => 1, 2 => 499_999, 3 => 500_000, _ => 999_999 };
    let sub = k * 1_000_000 + us;
    let t = Time::try_from_usecs(m * 60_000_000 + sub).unwrap();
    assert!(t.second().unwrap() == sub as f64 / 1_000_000.0);
    // a timestamp reports the second of its time of day (also before 1970)
    let d: i64 = kani::any();
    kani::assume(d >= -719_162 && d <= 2_932_896);
    let ts = Timestamp::try_from_usecs(d * 86_400_000_000 + m * 60_000_000 + sub).unwrap();
    assert!(ts.second().unwrap() == sub as f64 / 1_000_000.0);
}

#[kani::proof]
fn second_accessor_time() {
    let t = any_time();
    let (_, _, s, us) = t.extract();
    second_matches(t.second().unwrap(), s, us);
    assert!(t.year().is_none() && t.date().is_none());
}

#[kani::proof]
fn second_accessor_timestamp() {
    let ts = any_timestamp();
    let t = ts.time();
    let (_, _, s, us) = t.extract();
    second_matches(ts.second().unwrap(), s, us);
}

#[kani::proof]
fn second_accessor_interval_dt() {
    let v = any_dt();
    let (sign, _, _, _, s, us) = v.extract();
    let r = v.second().unwrap();
    let mag = (s as u64 * 1_000_000 + us as u64) as f64 / 1_000_000.0;
    if v.usecs() >= 0 { assert!(r == mag); } else { assert!(r == -mag); }
    assert!(any_ym().second().is_none());
    assert!(any_date().second().is_none());
}

// ------------------------------------------------------------------ C14: scaling by a double
fn classify_dt(p: f64, r: Result<IntervalDT, Error>) {
    // everything after the multiply/divide: classification, truncation toward zero, range gate
    if p.is_infinite() {
        assert!(r == Err(Error::NumericOverflow));
    } else if p.is_nan() {
        assert!(r == Err(Error::InvalidNumber));
    } else {
        let t = p.trunc();
        if t >= -8_640_000_000_000_000_000.0 && t <= 8_640_000_000_000_000_000.0 {
            assert!(r.is_ok());
            let v = r.unwrap().usecs();
            assert!(v as f64 == t && (v as f64).trunc() == t);   // t is integral, |t| <= 8.64e18: exact as i64
            assert!(if p >= 0.0 { (v as f64) <= p } else { (v as f64) >= p });
        } else {
            assert!(r == Err(Error::IntervalOutOfRange));
        }
    }
}

fn classify_ym(p: f64, r: Result<IntervalYM, Error>) {
    if p.is_infinite() {
        assert!(r == Err(Error::NumericOverflow));
    } else if p.is_nan() {
        assert!(r == Err(Error::InvalidNumber));
    } else {
        let t = p.trunc();
        if t >= -2_136_000_000.0 && t <= 2_136_000_000.0 {
            assert!(r.is_ok());
            assert!(r.unwrap().months() as f64 == t);
        } else {
            assert!(r == Err(Error::IntervalOutOfRange));
        }
    }
}

/// unit interval: 1.0 * k == k exactly, so the product ranges over EVERY double
#[kani::proof]
fn dt_mul_f64_unit() {
    let k: f64 = kani::any();
    let one = IntervalDT::try_from_usecs(1).unwrap();
    classify_dt(k, one.mul_f64(k));
    let minus = IntervalDT::try_from_usecs(-1).unwrap();
    classify_dt(-k, minus.mul_f64(k));
    // Time delegates with the same microsecond count
    let t = Time::try_from_usecs(1).unwrap();
    classify_dt(k, t.mul_f64(k));
}

#[kani::proof]
fn ym_mul_f64_unit() {
    let k: f64 = kani::any();
    let one = IntervalYM::try_from_months(1).unwrap();
    classify_ym(k, one.mul_f64(k));
    let minus = IntervalYM::try_from_months(-1).unwrap();
    classify_ym(-k, minus.mul_f64(k));
}

/// zero interval: 0 * k is 0 for finite k and NaN for infinite/NaN k
#[kani::proof]
fn mul_f64_zero() {
    let k: f64 = kani::any();
    classify_dt(0.0 * k, IntervalDT::ZERO.mul_f64(k));
    classify_ym(0.0 * k, IntervalYM::ZERO.mul_f64(k));
}

/// the whole function against `trunc(IEEE product)`: symbolic interval x symbolic double
#[kani::proof]
fn dt_mul_f64_contract() {
    let v = any_dt();
    let k: f64 = kani::any();
    classify_dt(v.usecs() as f64 * k, v.mul_f64(k));
}

#[kani::proof]
fn ym_mul_f64_contract() {
    let v = any_ym();
    let k: f64 = kani::any();
    classify_ym(v.months() as f64 * k, v.mul_f64(k));
}

/// zero dividend, EVERY double divisor: DivideByZero exactly for +0.0 / -0.0, InvalidNumber for NaN, else exactly zero
/// (a divisor is "zero" only when it compares equal to 0.0 - subnormals and tiny normals are ordinary divisors)
#[kani::proof]
fn div_f64_zero_dividend() {
    let k: f64 = kani::any();
    let r = IntervalDT::ZERO.div_f64(k);
    let ry = IntervalYM::ZERO.div_f64(k);
    let rt = Time::ZERO.div_f64(k);
    if k == 0.0 {
        assert!(r == Err(Error::DivideByZero) && ry == Err(Error::DivideByZero) && rt == Err(Error::DivideByZero));
    } else if k.is_nan() {
        assert!(r == Err(Error::InvalidNumber) && ry == Err(Error::InvalidNumber) && rt == Err(Error::InvalidNumber));
    } else {
        assert!(r.is_ok() && r.unwrap().usecs() == 0);
        assert!(ry.is_ok() && ry.unwrap().months() == 0);
        assert!(rt.is_ok() && rt.unwrap().usecs() == 0);
    }
}

#[kani::proof]
fn dt_div_f64_contract() {
    let v = any_dt();
    let k: f64 = kani::any();
    let r = v.div_f64(k);
    if k == 0.0 {
        assert!(r == Err(Error::DivideByZero));
    } else {
        classify_dt(v.usecs() as f64 / k, r);
    }
    let t = any_time();
    let rt = t.div_f64(k);
    if k == 0.0 { assert!(rt == Err(Error::DivideByZero)); } else { classify_dt(t.usecs() as f64 / k, rt); }
}

#[kani::proof]
fn ym_div_f64_contract() {
    let v = any_ym();
    let k: f64 = kani::any();
    let r = v.div_f64(k);
    if k == 0.0 {
        assert!(r == Err(Error::DivideByZero));
    } else {
        classify_ym(v.months() as f64 / k, r);
    }
}

/// exactness for integer factors while |x*k| < 2^53, sign symmetry; operands restricted (bounded)
#[kani::proof]
fn dt_mul_f64_integer_factors_bounded() {
    let x: i64 = kani::any();
    kani::assume(x > -(1i64 << 40) && x < (1i64 << 40));
    let k: i16 = kani::any();
    kani::assume(k > -4096 && k < 4096);
    let v = IntervalDT::try_from_usecs(x).unwrap();
    let r = v.mul_f64(k as f64);
    assert!(r.is_ok() && r.unwrap().usecs() == x * k as i64);
    let n = v.negate().mul_f64(k as f64).unwrap().usecs();
    assert!(n == -(x * k as i64));
}

#[kani::proof]
fn dt_div_f64_exact_quotients_bounded() {
    let q: i32 = kani::any();
    let k: u8 = kani::any();
    kani::assume(k >= 1 && k <= 100);
    kani::assume(q > -1_000_000 && q < 1_000_000);
    let v = IntervalDT::try_from_usecs(q as i64 * k as i64).unwrap();
    let r = v.div_f64(k as f64);
    assert!(r.is_ok() && r.unwrap().usecs() == q as i64);
}

/// exact quotients with a few constant divisors: (q * k) / k == q
#[kani::proof]
fn dt_div_f64_const_divisors_bounded() {
    let q: i32 = kani::any();
    kani::assume(q > -100_000 && q < 100_000);
    let v3 = IntervalDT::try_from_usecs(q as i64 * 3).unwrap();
    assert!(v3.div_f64(3.0).unwrap().usecs() == q as i64);
    let v49 = IntervalDT::try_from_usecs(q as i64 * 49).unwrap();
    assert!(v49.div_f64(49.0).unwrap().usecs() == q as i64);
    let v10 = IntervalDT::try_from_usecs(q as i64 * 10).unwrap();
    assert!(v10.div_f64(10.0).unwrap().usecs() == q as i64);
    assert!(v10.div_f64(-10.0).unwrap().usecs() == -(q as i64));
}

/// exact products with a few constant integer factors, and sign symmetry
#[kani::proof]
fn dt_mul_f64_const_factors_bounded() {
    let x: i64 = kani::any();
    kani::assume(x > -(1i64 << 44) && x < (1i64 << 44));
    let v = IntervalDT::try_from_usecs(x).unwrap();
    assert!(v.mul_f64(3.0).unwrap().usecs() == x * 3);
    assert!(v.mul_f64(-7.0).unwrap().usecs() == -(x * 7));
    assert!(v.negate().mul_f64(7.0).unwrap().usecs() == -(x * 7));
    assert!(v.mul_f64(0.5).unwrap().usecs() == x / 2);
    assert!(v.mul_f64(1000.0).unwrap().usecs() == x * 1000);
}

// ------------------------------------------------------------------ C15: serde, compact binary form
mod kserde {
    use super::*;
    use crate::OracleDate;
    use serde_crate::de::{self, Deserialize, Deserializer, Visitor};
    use serde_crate::ser::{self, Impossible, Serialize, Serializer};
    use core::fmt;

    #[derive(Debug)]
    pub struct KErr;
    impl fmt::Display for KErr {
        fn fmt(&self, _f: &mut fmt::Formatter) -> fmt::Result { Ok(()) }
    }
    impl std::error::Error for KErr {}
    impl de::Error for KErr {
        fn custom<T: fmt::Display>(_msg: T) -> Self { KErr }
    }
    impl ser::Error for KErr {
        fn custom<T: fmt::Display>(_msg: T) -> Self { KErr }
    }

    /// a non-human-readable deserializer holding one raw integer
    pub enum Raw { I32(i32), I64(i64) }
    impl<'de> Deserializer<'de> for Raw {
        type Error = KErr;
        fn deserialize_any<V: Visitor<'de>>(self, visitor: V) -> Result<V::Value, KErr> {
            match self { Raw::I32(v) => visitor.visit_i32(v), Raw::I64(v) => visitor.visit_i64(v) }
        }
        fn is_human_readable(&self) -> bool { false }
        serde_crate::forward_to_deserialize_any! {
            bool i8 i16 i32 i64 i128 u8 u16 u32 u64 u128 f32 f64 char str string bytes byte_buf option unit unit_struct
            newtype_struct seq tuple tuple_struct map struct enum identifier ignored_any
        }
    }

    /// a non-human-readable serializer that records the one primitive written
    #[derive(PartialEq, Debug)]
    pub enum Rec { I32(i32), I64(i64), Other }
    pub struct RecSer;
    impl Serializer for RecSer {
        type Ok = Rec;
        type Error = KErr;
        type SerializeSeq = Impossible<Rec, KErr>;
        type SerializeTuple = Impossible<Rec, KErr>;
        type SerializeTupleStruct = Impossible<Rec, KErr>;
        type SerializeTupleVariant = Impossible<Rec, KErr>;
        type SerializeMap = Impossible<Rec, KErr>;
        type SerializeStruct = Impossible<Rec, KErr>;
        type SerializeStructVariant = Impossible<Rec, KErr>;
        fn is_human_readable(&self) -> bool { false }
        fn serialize_i32(self, v: i32) -> Result<Rec, KErr> { Ok(Rec::I32(v)) }
        fn serialize_i64(self, v: i64) -> Result<Rec, KErr> { Ok(Rec::I64(v)) }
        fn serialize_bool(self, _v: bool) -> Result<Rec, KErr> { Ok(Rec::Other) }
        fn serialize_i8(self, _v: i8) -> Result<Rec, KErr> { Ok(Rec::Other) }
        fn serialize_i16(self, _v: i16) -> Result<Rec, KErr> { Ok(Rec::Other) }
        fn serialize_u8(self, _v: u8) -> Result<Rec, KErr> { Ok(Rec::Other) }
        fn serialize_u16(self, _v: u16) -> Result<Rec, KErr> { Ok(Rec::Other) }
        fn serialize_u32(self, _v: u32) -> Result<Rec, KErr> { Ok(Rec::Other) }
        fn serialize_u64(self, _v: u64) -> Result<Rec, KErr> { Ok(Rec::Other) }
        fn serialize_f32(self, _v: f32) -> Result<Rec, KErr> { Ok(Rec::Other) }
        fn serialize_f64(self, _v: f64) -> Result<Rec, KErr> { Ok(Rec::Other) }
        fn serialize_char(self, _v: char) -> Result<Rec, KErr> { Ok(Rec::Other) }
        fn serialize_str(self, _v: &str) -> Result<Rec, KErr> { Ok(Rec::Other) }
        fn serialize_bytes(self, _v: &[u8]) -> Result<Rec, KErr> { Ok(Rec::Other) }
        fn serialize_none(self) -> Result<Rec, KErr> { Ok(Rec::Other) }
        fn serialize_some<T: ?Sized + Serialize>(self, _value: &T) -> Result<Rec, KErr> { Ok(Rec::Other) }
        fn serialize_unit(self) -> Result<Rec, KErr> { Ok(Rec::Other) }
        fn serialize_unit_struct(self, _name: &'static str) -> Result<Rec, KErr> { Ok(Rec::Other) }
        fn serialize_unit_variant(self, _n: &'static str, _i: u32, _v: &'static str) -> Result<Rec, KErr> { Ok(Rec::Other) }
        fn serialize_newtype_struct<T: ?Sized + Serialize>(self, _n: &'static str, _v: &T) -> Result<Rec, KErr> { Ok(Rec::Other) }
        fn serialize_newtype_variant<T: ?Sized + Serialize>(self, _n: &'static str, _i: u32, _v: &'static str, _val: &T) -> Result<Rec, KErr> { Ok(Rec::Other) }
        fn serialize_seq(self, _len: Option<usize>) -> Result<Self::SerializeSeq, KErr> { Err(KErr) }
        fn serialize_tuple(self, _len: usize) -> Result<Self::SerializeTuple, KErr> { Err(KErr) }
        fn serialize_tuple_struct(self, _n: &'static str, _len: usize) -> Result<Self::SerializeTupleStruct, KErr> { Err(KErr) }
        fn serialize_tuple_variant(self, _n: &'static str, _i: u32, _v: &'static str, _len: usize) -> Result<Self::SerializeTupleVariant, KErr> { Err(KErr) }
        fn serialize_map(self, _len: Option<usize>) -> Result<Self::SerializeMap, KErr> { Err(KErr) }
        fn serialize_struct(self, _n: &'static str, _len: usize) -> Result<Self::SerializeStruct, KErr> { Err(KErr) }
        fn serialize_struct_variant(self, _n: &'static str, _i: u32, _v: &'static str, _len: usize) -> Result<Self::SerializeStructVariant, KErr> { Err(KErr) }
    }

    /// the shared static formatters belong to the text form; in the compact form they are never touched
    /// (the stub fails the proof if they are, and keeps once_cell/parking_lot - which Kani cannot compile - out of reach)
    pub fn lazy_force_never<T, F: FnOnce() -> T>(_this: &once_cell::sync::Lazy<T, F>) -> &T {
        panic!("text formatter used in the compact form")
    }

    // decoding ANY raw integer yields a value inside the documented range (whole seconds for the Oracle date) or an error;
    // the compact form written is exactly the raw count and decodes to the same value.  One obligation per type.
    #[kani::proof]
    #[kani::stub(once_cell::sync::Lazy::force, lazy_force_never)]
    fn serde_binary_date() {
        let a: i32 = kani::any();
        match Date::deserialize(Raw::I32(a)) {
            Ok(d) => assert!(d.days() == a && a as i64 >= K_DATE_MIN && a as i64 <= K_DATE_MAX),
            Err(_) => assert!((a as i64) < K_DATE_MIN || a as i64 > K_DATE_MAX),
        }
        let d = any_date();
        assert!(d.serialize(RecSer).unwrap() == Rec::I32(d.days()));
    }

    #[kani::proof]
    #[kani::stub(once_cell::sync::Lazy::force, lazy_force_never)]
    fn serde_binary_interval_ym() {
        let a: i32 = kani::any();
        match IntervalYM::deserialize(Raw::I32(a)) {
            Ok(v) => assert!(v.months() == a && a >= -2_136_000_000 && a <= 2_136_000_000),
            Err(_) => assert!(a < -2_136_000_000 || a > 2_136_000_000),
        }
        let ym = any_ym();
        assert!(ym.serialize(RecSer).unwrap() == Rec::I32(ym.months()));
    }

    #[kani::proof]
    #[kani::stub(once_cell::sync::Lazy::force, lazy_force_never)]
    fn serde_binary_time() {
        let b: i64 = kani::any();
        match Time::deserialize(Raw::I64(b)) {
            Ok(v) => assert!(v.usecs() == b && b >= 0 && b < K_US_DAY),
            Err(_) => assert!(b < 0 || b >= K_US_DAY),
        }
        let t = any_time();
        assert!(t.serialize(RecSer).unwrap() == Rec::I64(t.usecs()));
    }

    #[kani::proof]
    #[kani::stub(once_cell::sync::Lazy::force, lazy_force_never)]
    fn serde_binary_timestamp() {
        let b: i64 = kani::any();
        match Timestamp::deserialize(Raw::I64(b)) {
            Ok(v) => assert!(v.usecs() == b && b >= K_TS_MIN && b <= K_TS_MAX),
            Err(_) => assert!(b < K_TS_MIN || b > K_TS_MAX),
        }
        let ts = any_timestamp();
        assert!(ts.serialize(RecSer).unwrap() == Rec::I64(ts.usecs()));
    }

    #[kani::proof]
    #[kani::stub(once_cell::sync::Lazy::force, lazy_force_never)]
    fn serde_binary_interval_dt() {
        let b: i64 = kani::any();
        match IntervalDT::deserialize(Raw::I64(b)) {
            Ok(v) => assert!(v.usecs() == b && b >= -8_640_000_000_000_000_000 && b <= 8_640_000_000_000_000_000),
            Err(_) => assert!(b < -8_640_000_000_000_000_000 || b > 8_640_000_000_000_000_000),
        }
        let dt = any_dt();
        assert!(dt.serialize(RecSer).unwrap() == Rec::I64(dt.usecs()));
    }

    pub static mut K_OD_ARG: i64 = 0;
    pub static mut K_OD_CALLS: u32 = 0;
    /// `oracle::Date::try_from_usecs` replaced by "records its argument, returns an arbitrary result";
    /// its own contract (Ok iff in range and a whole second) is proved in Verus
    pub fn od_try_from_usecs_probe(usecs: i64) -> Result<OracleDate, Error> {
        unsafe { K_OD_ARG = usecs; K_OD_CALLS += 1; }
        if kani::any() { Ok(OracleDate::from(any_timestamp())) } else { Err(Error::DateOutOfRange) }
    }

    /// the compact form of the Oracle-style date goes through the checked constructor with the raw count, exactly once
    #[kani::proof]
    #[kani::stub(once_cell::sync::Lazy::force, lazy_force_never)]
    #[kani::stub(crate::oracle::Date::try_from_usecs, od_try_from_usecs_probe)]
    fn serde_binary_oracle_date() {
        let b: i64 = kani::any();
        unsafe { K_OD_CALLS = 0; }
        let r = OracleDate::deserialize(Raw::I64(b));
        assert!(unsafe { K_OD_CALLS } == 1 && unsafe { K_OD_ARG } == b);
        let od = OracleDate::from(any_timestamp());
        assert!(od.serialize(RecSer).unwrap() == Rec::I64(od.usecs()));
    }
}

// ------------------------------------------------------------------ C16 / C02: Oracle-style date, fractional days
/// exact nearest-second rounding, observed with a zero offset and with whole/half-second offsets (products are exact)
#[kani::proof]
fn od_add_days_consts_bounded() {
    use crate::OracleDate;
    let od = OracleDate::from(any_timestamp());
    let base = od.usecs();
    // 0.5 day, one second (1/86400 is not exact: use dyadic day fractions), -1 day, 2^-20 day (= 82397.46.. us -> rounds to 82397 us)
    let r0 = od.add_days(0.0);
    assert!(r0.is_ok() && r0.unwrap().usecs() == base);
    let r1 = od.add_days(0.5);
    if base + 43_200_000_000 <= K_TS_MAX { assert!(r1.unwrap().usecs() == base + 43_200_000_000); } else { assert!(r1.is_err()); }
    let r2 = od.sub_days(1.0);
    if base - K_US_DAY >= K_TS_MIN { assert!(r2.unwrap().usecs() == base - K_US_DAY); } else { assert!(r2.is_err()); }
    // 2^-20 day = 82_397.4609375 us -> timestamp offset 82_397 us -> nearest second = base
    let r3 = od.add_days(0.00000095367431640625);
    assert!(r3.is_ok() && r3.unwrap().usecs() == base);
    // 0.00001 day = 864_000 us -> rounds up to the next second; at the last second of the range that is an error
    let r4 = od.add_days(0.00001);
    if base + 1_000_000 <= K_TS_MAX { assert!(r4.is_ok() && r4.unwrap().usecs() == base + 1_000_000); } else { assert!(r4.is_err()); }
}

/// sub_date: whole-day differences are exact
#[kani::proof]
fn od_sub_date_whole_days_bounded() {
    use crate::OracleDate;
    let a = any_date();
    let k: i16 = kani::any();
    let b = a.add_days(k as i32);
    kani::assume(b.is_ok());
    let oa = OracleDate::from(Timestamp::from(a));
    let ob = OracleDate::from(Timestamp::from(b.unwrap()));
    assert!(ob.sub_date(oa) == k as f64);
    assert!(oa.sub_date(ob) == -(k as f64));
}

// ------------------------------------------------------------------ C08: Timestamp::add_days
/// the logic after the multiplication, for offsets whose product is exact (dyadic fractions of a day):
/// Ok exactly when the exact result is in range, NaN / infinity classified
#[kani::proof]
fn ts_add_days_consts_bounded() {
    let ts = any_timestamp();
    let base = ts.usecs();
    assert!(ts.add_days(f64::NAN) == Err(Error::InvalidNumber));
    assert!(ts.add_days(f64::INFINITY) == Err(Error::NumericOverflow));
    assert!(ts.add_days(f64::NEG_INFINITY) == Err(Error::NumericOverflow));
    assert!(ts.add_days(1e300) == Err(Error::NumericOverflow));   // the product overflows to infinity
    assert!(ts.add_days(1e200) == Err(Error::DateOutOfRange));
    // 500000001 / 2^13 day = 5_273_437_510_546_875 us exactly: an odd integer between 2^52 and 2^53 (no tie, no slack)
    let offs: [(f64, i64); 9] = [(0.0, 0), (1.0, K_US_DAY), (-1.0, -K_US_DAY), (0.5, K_US_DAY / 2), (-0.25, -K_US_DAY / 4),
                                 (0.00000095367431640625, 82_397), (-0.00000095367431640625, -82_397),
                                 (61035.1563720703125, 5_273_437_510_546_875), (-61035.1563720703125, -5_273_437_510_546_875)];
    let mut i = 0;
    while i < 9 {
        let (d, us) = offs[i];
        let r = ts.add_days(d);
        let e = base + us;
        if e >= K_TS_MIN && e <= K_TS_MAX { assert!(r.is_ok() && r.unwrap().usecs() == e); } else { assert!(r == Err(Error::DateOutOfRange)); }
        let r2 = ts.sub_days(d);
        let e2 = base - us;
        if e2 >= K_TS_MIN && e2 <= K_TS_MAX { assert!(r2.is_ok() && r2.unwrap().usecs() == e2); } else { assert!(r2 == Err(Error::DateOutOfRange)); }
        i += 1;
    }
}

/// every double: the result, if any, is in range (C02) and no panic (C03)
#[kani::proof]
fn ts_add_days_range() {
    let ts = any_timestamp();
    let d: f64 = kani::any();
    if let Ok(v) = ts.add_days(d) {
        assert!(v.usecs() >= K_TS_MIN && v.usecs() <= K_TS_MAX);
        assert!(!d.is_nan() && !d.is_infinite());
    }
}

// ------------------------------------------------------------------ C18: the clock
// `chrono::Local::now` is replaced by a symbolic clock built through chrono's own constructors, so that
// naive_local() and the Datelike/Timelike accessors are chrono's real code.  Calls are counted.
pub static mut K_NOW_CALLS: u32 = 0;
pub static mut K_CLOCK: [u32; 7] = [2000, 1, 1, 0, 0, 0, 0];

pub fn stub_now() -> chrono::DateTime<chrono::Local> {
    unsafe { K_NOW_CALLS += 1; }
    let c = unsafe { K_CLOCK };
    let nd = chrono::NaiveDate::from_ymd_opt(c[0] as i32, c[1], c[2]).unwrap();
    let nt = nd.and_hms_micro_opt(c[3], c[4], c[5], c[6]).unwrap();
    chrono::DateTime::<chrono::Local>::from_naive_utc_and_offset(nt, chrono::FixedOffset::east_opt(0).unwrap())
}

/// the same local clock, one hour WEST of UTC: the UTC instant is one hour later (the next calendar day in the last
/// hour of the local day), so reading the UTC fields instead of the local ones is visible
pub fn stub_now_west() -> chrono::DateTime<chrono::Local> {
    unsafe { K_NOW_CALLS += 1; }
    let c = unsafe { K_CLOCK };
    let (y, m, d, h) = if c[3] < 23 { (c[0], c[1], c[2], c[3] + 1) }
        else if (c[2] as i64) < k_mdays(c[0] as i64, c[1] as i64) { (c[0], c[1], c[2] + 1, 0) }
        else if c[1] < 12 { (c[0], c[1] + 1, 1, 0) } else { (c[0] + 1, 1, 1, 0) };
    let nd = chrono::NaiveDate::from_ymd_opt(y as i32, m, d).unwrap();
    let utc = nd.and_hms_micro_opt(h, c[4], c[5], c[6]).unwrap();
    chrono::DateTime::<chrono::Local>::from_naive_utc_and_offset(utc, chrono::FixedOffset::west_opt(3600).unwrap())
}

/// cheap clock for the parser obligations: `Local::now` returns a fixed instant and chrono's year()/month()/day()
/// accessors on NaiveDateTime read the symbolic clock (assumed: chrono's accessors return the fields the value was built from;
/// the clock_now_* obligations run chrono's real constructors and accessors)
pub fn stub_now_fixed() -> chrono::DateTime<chrono::Local> {
    unsafe { K_NOW_CALLS += 1; }
    let nd = chrono::NaiveDate::from_ymd_opt(2000, 1, 1).unwrap();
    let nt = nd.and_hms_micro_opt(0, 0, 0, 0).unwrap();
    chrono::DateTime::<chrono::Local>::from_naive_utc_and_offset(nt, chrono::FixedOffset::east_opt(0).unwrap())
}
pub fn clock_year(_d: &chrono::NaiveDateTime) -> i32 { unsafe { K_CLOCK[0] as i32 } }
pub fn clock_month(_d: &chrono::NaiveDateTime) -> u32 { unsafe { K_CLOCK[1] } }
pub fn clock_day(_d: &chrono::NaiveDateTime) -> u32 { unsafe { K_CLOCK[2] } }

/// a symbolic current local date and time (years 1..=9999 unless `any_year`)
pub fn set_any_clock(any_year: bool) -> [u32; 7] {
    let c: [u32; 7] = [kani::any(), kani::any(), kani::any(), kani::any(), kani::any(), kani::any(), kani::any()];
    if any_year {
        kani::assume(c[0] <= 10_001);
        kani::assume(c[1] >= 1 && c[1] <= 12 && c[2] >= 1 && (c[2] as i64) <= k_mdays(c[0] as i64, c[1] as i64));
    } else {
        kani::assume(k_date_ok(c[0] as i64, c[1] as i64, c[2] as i64));
    }
    kani::assume(c[3] < 24 && c[4] < 60 && c[5] < 60 && c[6] < 1_000_000);
    unsafe { K_CLOCK = c; K_NOW_CALLS = 0; }
    c
}

/// the `now` constructors report the current local date and time
#[kani::proof]
#[kani::stub(chrono::Local::now, stub_now)]
fn clock_now_date() {
    let c = set_any_clock(false);
    let day = k_dn(c[0] as i64, c[1] as i64, c[2] as i64);
    let d = Date::now();
    assert!(d.is_ok() && d.unwrap().days() as i64 == day);
    assert!(unsafe { K_NOW_CALLS } == 1);
}

pub static mut K_NEW_DAY: i64 = 0;
pub static mut K_NEW_TOD: i64 = -1;
pub static mut K_NEW_CALLS: u32 = 0;
/// `Timestamp::new` / `oracle::Date::new` replaced by "records its arguments, returns an arbitrary value";
/// their own contracts (day * 86_400_000_000 + time, floored to the second for the Oracle date) are proved in Verus
pub fn ts_new_probe(date: Date, time: Time) -> Timestamp {
    unsafe { K_NEW_DAY = date.days() as i64; K_NEW_TOD = time.usecs(); K_NEW_CALLS += 1; }
    any_timestamp()
}
pub fn od_new_probe(date: Date, time: Time) -> crate::OracleDate {
    unsafe { K_NEW_DAY = date.days() as i64; K_NEW_TOD = time.usecs(); K_NEW_CALLS += 1; }
    crate::OracleDate::MIN
}

#[kani::proof]
#[kani::stub(chrono::Local::now, stub_now)]
#[kani::stub(crate::timestamp::Timestamp::new, ts_new_probe)]
fn clock_now_timestamp() {
    let c = set_any_clock(false);
    let day = k_dn(c[0] as i64, c[1] as i64, c[2] as i64);
    let tod = k_hms_us(c[3] as i64, c[4] as i64, c[5] as i64, c[6] as i64);
    unsafe { K_NEW_CALLS = 0; }
    let ts = Timestamp::now();
    assert!(ts.is_ok());
    assert!(unsafe { K_NEW_CALLS } == 1 && unsafe { K_NEW_DAY } == day && unsafe { K_NEW_TOD } == tod);
}

#[kani::proof]
#[kani::stub(chrono::Local::now, stub_now)]
#[kani::stub(crate::oracle::Date::new, od_new_probe)]
fn clock_now_oracle_date() {
    use crate::OracleDate;
    let c = set_any_clock(false);
    let day = k_dn(c[0] as i64, c[1] as i64, c[2] as i64);
    let tod = k_hms_us(c[3] as i64, c[4] as i64, c[5] as i64, c[6] as i64);
    unsafe { K_NEW_CALLS = 0; }
    let od = OracleDate::now();
    assert!(od.is_ok());
    // the Oracle-style date is built from the clock's whole second
    assert!(unsafe { K_NEW_CALLS } == 1 && unsafe { K_NEW_DAY } == day && unsafe { K_NEW_TOD } == tod - c[6] as i64);
}

/// time of day -> timestamp / Oracle-style date on the current local date
#[kani::proof]
#[kani::stub(chrono::Local::now, stub_now)]
#[kani::stub(crate::timestamp::Timestamp::new, ts_new_probe)]
fn clock_time_to_timestamp() {
    let c = set_any_clock(false);
    let day = k_dn(c[0] as i64, c[1] as i64, c[2] as i64);
    let t = any_time();
    unsafe { K_NEW_CALLS = 0; }
    let a = Timestamp::try_from(t);
    assert!(a.is_ok());
    assert!(unsafe { K_NEW_CALLS } == 1 && unsafe { K_NEW_DAY } == day && unsafe { K_NEW_TOD } == t.usecs());
}

/// ... in a zone that is not UTC: the LOCAL date is used (also in the hour where the UTC date is already tomorrow)
#[kani::proof]
#[kani::stub(chrono::Local::now, stub_now_west)]
#[kani::stub(crate::timestamp::Timestamp::new, ts_new_probe)]
fn clock_time_to_timestamp_west() {
    let c = set_any_clock(false);
    let day = k_dn(c[0] as i64, c[1] as i64, c[2] as i64);
    let t = any_time();
    unsafe { K_NEW_CALLS = 0; }
    let a = Timestamp::try_from(t);
    assert!(a.is_ok());
    assert!(unsafe { K_NEW_CALLS } == 1 && unsafe { K_NEW_DAY } == day && unsafe { K_NEW_TOD } == t.usecs());
    let d = Date::now();
    assert!(d.is_ok() && d.unwrap().days() as i64 == day);
}

#[kani::proof]
#[kani::stub(chrono::Local::now, stub_now)]
#[kani::stub(crate::oracle::Date::new, od_new_probe)]
fn clock_time_to_oracle_date() {
    use crate::OracleDate;
    let c = set_any_clock(false);
    let day = k_dn(c[0] as i64, c[1] as i64, c[2] as i64);
    let t = any_time();
    unsafe { K_NEW_CALLS = 0; }
    let b = OracleDate::try_from(t);
    assert!(b.is_ok());
    assert!(unsafe { K_NEW_CALLS } == 1 && unsafe { K_NEW_DAY } == day && unsafe { K_NEW_TOD } == t.usecs());
}

/// a clock outside years 1..=9999 is reported as an error, never as a wrapped value
#[kani::proof]
#[kani::stub(chrono::Local::now, stub_now)]
fn clock_out_of_range_year() {
    let c = set_any_clock(true);
    kani::assume(c[0] == 0 || c[0] >= 10_000);
    assert!(Date::now().is_err());
    assert!(Timestamp::now().is_err());
    assert!(Timestamp::try_from(any_time()).is_err());
}

// ------------------------------------------------------------------ C08 / C16: the f64 wrappers delegate (negated offset, floored receiver)
pub static mut K_AD_BITS: u64 = 0;
pub static mut K_AD_SELF: i64 = 0;
pub static mut K_AD_CALLS: u32 = 0;
pub fn ts_add_days_probe(ts: Timestamp, days: f64) -> Result<Timestamp, Error> {
    unsafe { K_AD_BITS = days.to_bits(); K_AD_SELF = ts.usecs(); K_AD_CALLS += 1; }
    if kani::any() { Ok(any_timestamp()) } else { Err(Error::DateOutOfRange) }
}
pub fn od_add_days_probe(od: crate::OracleDate, days: f64) -> Result<crate::OracleDate, Error> {
    unsafe { K_AD_BITS = days.to_bits(); K_AD_SELF = od.usecs(); K_AD_CALLS += 1; }
    if kani::any() { Ok(crate::OracleDate::MIN) } else { Err(Error::DateOutOfRange) }
}

/// Timestamp::sub_days(d) is add_days(-d) on the same timestamp (the sign flip is exact for every double)
#[kani::proof]
#[kani::stub(crate::timestamp::Timestamp::add_days, ts_add_days_probe)]
fn ts_sub_days_delegates() {
    let ts = any_timestamp();
    let d: f64 = kani::any();
    unsafe { K_AD_CALLS = 0; }
    let _ = ts.sub_days(d);
    assert!(unsafe { K_AD_CALLS } == 1 && unsafe { K_AD_SELF } == ts.usecs());
    assert!(unsafe { K_AD_BITS } == (-d).to_bits());
}

pub static mut K_FROM_ARG: i64 = 0;
pub static mut K_FROM_CALLS: u32 = 0;
pub const K_FROM_RESULT: i64 = 1_000_000 * 777;
/// `From<Timestamp> for oracle::Date` replaced by "records its argument, returns a fixed marker value"
/// (its contract - floor to the second - is proved in Verus)
pub fn od_from_ts_probe(ts: Timestamp) -> crate::OracleDate {
    unsafe { K_FROM_ARG = ts.usecs(); K_FROM_CALLS += 1; }
    unsafe { crate::OracleDate::from_usecs_unchecked(K_FROM_RESULT) }
}

/// oracle::Date::sub_days, Timestamp::oracle_add_days / oracle_sub_days delegate to oracle::Date::add_days
/// (with the negated offset; the Timestamp variants first convert the receiver with From<Timestamp>)
#[kani::proof]
#[kani::stub(crate::oracle::Date::add_days, od_add_days_probe)]
#[kani::stub(<crate::oracle::Date as core::convert::From<crate::timestamp::Timestamp>>::from, od_from_ts_probe)]
fn od_days_wrappers_delegate() {
    use crate::OracleDate;
    let d: f64 = kani::any();
    let q: i64 = kani::any();
    kani::assume(q >= K_TS_MIN / 1_000_000 && q <= K_TS_MAX / 1_000_000);
    let od = unsafe { OracleDate::from_usecs_unchecked(q * 1_000_000) };
    unsafe { K_AD_CALLS = 0; }
    let _ = od.sub_days(d);
    assert!(unsafe { K_AD_CALLS } == 1 && unsafe { K_AD_SELF } == q * 1_000_000 && unsafe { K_AD_BITS } == (-d).to_bits());
    let ts = any_timestamp();
    unsafe { K_AD_CALLS = 0; K_FROM_CALLS = 0; }
    let _ = ts.oracle_add_days(d);
    assert!(unsafe { K_FROM_CALLS } == 1 && unsafe { K_FROM_ARG } == ts.usecs());
    assert!(unsafe { K_AD_CALLS } == 1 && unsafe { K_AD_SELF } == K_FROM_RESULT && unsafe { K_AD_BITS } == d.to_bits());
    unsafe { K_AD_CALLS = 0; K_FROM_CALLS = 0; }
    let _ = ts.oracle_sub_days(d);
    assert!(unsafe { K_FROM_CALLS } == 1 && unsafe { K_FROM_ARG } == ts.usecs());
    assert!(unsafe { K_AD_CALLS } == 1 && unsafe { K_AD_SELF } == K_FROM_RESULT && unsafe { K_AD_BITS } == (-d).to_bits());
}
