//! Kani obligations injected into a scratch copy of the crate as `#[cfg(kani)] mod kverif;`
//! (crate root child: sees the public API and pub(crate) items).  Every harness here is
//! loop-free over the full input domain of the function under contract unless its name ends
//! in `_bounded`; the assertion is the function's contract, written with the executable twins
//! of the spec functions (twins.rs, proved equal to the Verus spec).
#![allow(unused_imports, dead_code, unused_variables)]

#[path = "twins.rs"]
pub mod twins;
use twins::*;

use crate::common::*;
use crate::{Date, DateTime, Error, IntervalDT, IntervalYM, Round, Time, Timestamp, Trunc};
use core::cmp::Ordering;
use core::convert::TryFrom;

// ------------------------------------------------------------------ generators
pub fn any_date() -> Date {
    let n: i32 = kani::any();
    kani::assume(n as i64 >= K_DATE_MIN && n as i64 <= K_DATE_MAX);
    Date::try_from_days(n).unwrap()
}

/// a valid civil triple; every valid Date is k_dn of exactly one of these (Verus: lemma_civil_props)
pub fn any_ymd() -> (i32, u32, u32) {
    let y: i32 = kani::any();
    let m: u32 = kani::any();
    let d: u32 = kani::any();
    kani::assume(k_date_ok(y as i64, m as i64, d as i64));
    (y, m, d)
}

pub fn any_time() -> Time {
    let n: i64 = kani::any();
    kani::assume(n >= 0 && n < K_US_DAY);
    Time::try_from_usecs(n).unwrap()
}

pub fn any_timestamp() -> Timestamp {
    let n: i64 = kani::any();
    kani::assume(n >= K_TS_MIN && n <= K_TS_MAX);
    Timestamp::try_from_usecs(n).unwrap()
}

pub fn any_ym() -> IntervalYM {
    let n: i32 = kani::any();
    kani::assume(n >= -2_136_000_000 && n <= 2_136_000_000);
    IntervalYM::try_from_months(n).unwrap()
}

pub fn any_dt() -> IntervalDT {
    let n: i64 = kani::any();
    kani::assume(n >= -8_640_000_000_000_000_000 && n <= 8_640_000_000_000_000_000);
    IntervalDT::try_from_usecs(n).unwrap()
}

/// `Date::extract` replaced by its Verus-proved contract (DESIGN.md 2.3): the unique valid triple whose
/// day number is the receiver.  Used only by harnesses that are about something else.
pub fn extract_by_contract(d: Date) -> (i32, u32, u32) {
    let (y, m, dd) = any_ymd();
    kani::assume(k_dn(y as i64, m as i64, dd as i64) == d.days() as i64);
    (y, m, dd)
}

/// `date2julian` replaced by its Verus-proved contract: precondition asserted, result = rata + 1721426
pub fn date2julian_by_contract(year: i32, month: u32, day: u32) -> i32 {
    assert!(year >= -4700 && year <= 100000 && month >= 1 && month <= 12 && day <= 31);
    (k_dn(year as i64, month as i64, day as i64) + 2440588) as i32
}

fn date_result_matches(r: Result<Date, Error>, target: i64) {
    if target >= K_DATE_MIN && target <= K_DATE_MAX {
        assert!(r.is_ok());
        assert!(r.unwrap().days() as i64 == target);
    } else {
        assert!(r == Err(Error::DateOutOfRange));
    }
}

// ------------------------------------------------------------------ C01: weekday
#[kani::proof]
fn date_day_of_week() {
    let d = any_date();
    let w = d.day_of_week();
    assert!(w as i64 == k_wd(d.days() as i64));
}

#[kani::proof]
fn weekday_month_from_usize() {
    let i: usize = kani::any();
    kani::assume(i >= 1 && i <= 12);
    assert!(crate::Month::from(i) as usize == i);
    if i <= 7 {
        assert!(crate::WeekDay::from(i) as usize == i);
    }
}

// ------------------------------------------------------------------ C10 / C11: function-pointer tables on Date
#[kani::proof]
fn date_trunc_iso_week() {
    let d = any_date();
    let n = d.days() as i64;
    let r = d.trunc_iso_week();
    assert!(r.is_ok());
    assert!(r.unwrap().days() as i64 == n - (k_wd(n) + 5) % 7);
}

#[kani::proof]
fn date_trunc_sunday_start_week() {
    let d = any_date();
    let n = d.days() as i64;
    let target = n - (k_wd(n) - 1);
    let r = d.trunc_sunday_start_week();
    if target >= K_DATE_MIN && target <= K_DATE_MAX {
        assert!(r.is_ok() && r.unwrap().days() as i64 == target);
    } else {
        assert!(r.is_err());
    }
}

#[kani::proof]
fn date_round_iso_week() {
    let d = any_date();
    let n = d.days() as i64;
    let off = (k_wd(n) + 5) % 7;
    let target = if off >= 4 { n - off + 7 } else { n - off };
    date_result_matches(d.round_iso_week(), target);
}

#[kani::proof]
fn date_round_sunday_start_week() {
    let d = any_date();
    let n = d.days() as i64;
    let off = k_wd(n) - 1;
    let target = if off >= 4 { n - off + 7 } else { n - off };
    date_result_matches(d.round_sunday_start_week(), target);
}

#[kani::proof]
#[kani::stub(crate::common::date2julian, date2julian_by_contract)]
fn date_round_week_internal() {
    let d = any_date();
    let n = d.days() as i64;
    let year: i32 = kani::any();
    kani::assume(year >= 1 && year <= 9999);
    let first = k_dn(year as i64, 1, 1);
    kani::assume(n - first >= 0 && n - first <= 366);
    let off = (n - first) % 7;
    let target = if off >= 4 { n - off + 7 } else { n - off };
    date_result_matches(d.round_week_internal(year), target);
}

#[kani::proof]
fn date_round_week_internal_direct() {
    let d = any_date();
    let n = d.days() as i64;
    let year: i32 = kani::any();
    kani::assume(year >= 1 && year <= 9999);
    let first = k_dn(year as i64, 1, 1);
    kani::assume(n - first >= 0 && n - first <= 366);
    let off = (n - first) % 7;
    let target = if off >= 4 { n - off + 7 } else { n - off };
    date_result_matches(d.round_week_internal(year), target);
}

#[kani::proof]
fn date_round_month_start_week_internal() {
    let d = any_date();
    let n = d.days() as i64;
    let day: i32 = kani::any();
    kani::assume(day >= 1 && day <= 31);
    let off = ((day - 1) % 7) as i64;
    let target = if off >= 4 { n - off + 7 } else { n - off };
    date_result_matches(d.round_month_start_week_internal(day), target);
}

/// contract of the private `Date::date_to_iso_year` is observed through `trunc_iso_year`
/// (= iso_start(iso_year_of(n))), with `extract` replaced by its contract
#[kani::proof]
#[kani::stub(crate::date::Date::extract, extract_by_contract)]
#[kani::stub(crate::common::date2julian, date2julian_by_contract)]
fn date_trunc_iso_year() {
    let (y, m, dd) = any_ymd();
    let n = k_dn(y as i64, m as i64, dd as i64);
    let d = Date::try_from_days(n as i32).unwrap();
    let iy = k_iso_year_of(n, y as i64);
    let r = d.trunc_iso_year();
    assert!(r.is_ok());
    assert!(r.unwrap().days() as i64 == k_iso_start(iy));
}

/// the same obligation without the contract stub (thorough tier; CBMC inverts the calendar itself)
#[kani::proof]
fn date_trunc_iso_year_direct() {
    let (y, m, dd) = any_ymd();
    let n = k_dn(y as i64, m as i64, dd as i64);
    let d = Date::try_from_days(n as i32).unwrap();
    let iy = k_iso_year_of(n, y as i64);
    let r = d.trunc_iso_year();
    assert!(r.is_ok());
    assert!(r.unwrap().days() as i64 == k_iso_start(iy));
}

// ------------------------------------------------------------------ C07 / C13 / C17: derived comparison impls are numeric
#[kani::proof]
fn derived_cmp_date() {
    let a = any_date();
    let b = any_date();
    assert!((a == b) == (a.days() == b.days()));
    assert!(a.cmp(&b) == a.days().cmp(&b.days()));
    assert!(a.partial_cmp(&b) == Some(a.days().cmp(&b.days())));
    assert!((a < b) == (a.days() < b.days()));
}

#[kani::proof]
fn derived_cmp_time() {
    let a = any_time();
    let b = any_time();
    assert!((a == b) == (a.usecs() == b.usecs()));
    assert!(a.cmp(&b) == a.usecs().cmp(&b.usecs()));
    assert!(a.partial_cmp(&b) == Some(a.usecs().cmp(&b.usecs())));
}

#[kani::proof]
fn derived_cmp_timestamp() {
    let a = any_timestamp();
    let b = any_timestamp();
    assert!((a == b) == (a.usecs() == b.usecs()));
    assert!(a.cmp(&b) == a.usecs().cmp(&b.usecs()));
    assert!(a.partial_cmp(&b) == Some(a.usecs().cmp(&b.usecs())));
    assert!((a < b) == (a.usecs() < b.usecs()));
}

#[kani::proof]
fn derived_cmp_intervals() {
    let a = any_ym();
    let b = any_ym();
    assert!((a == b) == (a.months() == b.months()));
    assert!(a.cmp(&b) == a.months().cmp(&b.months()));
    assert!(a.partial_cmp(&b) == Some(a.months().cmp(&b.months())));
    let c = any_dt();
    let e = any_dt();
    assert!((c == e) == (c.usecs() == e.usecs()));
    assert!(c.cmp(&e) == c.usecs().cmp(&e.usecs()));
    assert!(c.partial_cmp(&e) == Some(c.usecs().cmp(&e.usecs())));
}

#[kani::proof]
fn derived_eq_sign() {
    use crate::Sign;
    let a: bool = kani::any();
    let b: bool = kani::any();
    let sa = if a { Sign::Positive } else { Sign::Negative };
    let sb = if b { Sign::Positive } else { Sign::Negative };
    assert!((sa == sb) == (a == b));
    assert!(Sign::Positive as i32 == 1 && Sign::Negative as i32 == -1);
}

/// Hash feeds exactly the underlying integer to the hasher
struct RecHasher { last: i64, calls: u32 }
impl core::hash::Hasher for RecHasher {
    fn finish(&self) -> u64 { 0 }
    fn write(&mut self, _bytes: &[u8]) { self.calls += 100; }
    fn write_i32(&mut self, i: i32) { self.last = i as i64; self.calls += 1; }
    fn write_i64(&mut self, i: i64) { self.last = i; self.calls += 1; }
}

#[kani::proof]
fn derived_hash() {
    use core::hash::Hash;
    let d = any_date();
    let mut h = RecHasher { last: 0, calls: 0 };
    d.hash(&mut h);
    assert!(h.calls == 1 && h.last == d.days() as i64);
    let t = any_time();
    let mut h = RecHasher { last: 0, calls: 0 };
    t.hash(&mut h);
    assert!(h.calls == 1 && h.last == t.usecs());
    let ts = any_timestamp();
    let mut h = RecHasher { last: 0, calls: 0 };
    ts.hash(&mut h);
    assert!(h.calls == 1 && h.last == ts.usecs());
}

// ------------------------------------------------------------------ C05 / C13: TryFrom<NaiveDateTime> for IntervalYM (assumed in the Verus unit)
#[kani::proof]
fn ym_try_from_naive() {
    use crate::format::NaiveDateTime;
    let mut dt = NaiveDateTime::new();
    dt.year = kani::any();
    dt.month = kani::any();
    dt.negative = kani::any();
    dt.day = kani::any();
    dt.hour = kani::any();
    // the year scanner reads at most nine digits (scanner contract, C05)
    kani::assume(dt.year > -2_000_000_000 && dt.year < 2_000_000_000);
    let year = dt.year;
    let month = dt.month;
    let negative = dt.negative;
    let r = IntervalYM::try_from(dt);
    let y: i64 = if negative { ((-(year as i64)) as u32) as i64 } else { (year as u32) as i64 };
    let mag = y * 12 + month as i64;
    let ok = month < 12 && mag <= 2_136_000_000;
    assert!(r.is_ok() == ok);
    if ok {
        assert!(r.clone().unwrap().months() as i64 == if negative { -mag } else { mag });
    }
    if y > 178_000_000 || (y == 178_000_000 && month != 0) {
        assert!(r == Err(Error::IntervalOutOfRange));
    } else if month >= 12 {
        assert!(r == Err(Error::InvalidMonth));
    }
}

// ------------------------------------------------------------------ C05: day-of-year -> (month, day)
#[kani::proof]
fn month_day_of_days() {
    let days: u32 = kani::any();
    let leap: bool = kani::any();
    kani::assume(days >= 1 && days <= if leap { 366 } else { 365 });
    let (m, d) = the_month_day_of_days(days, leap);
    assert!(m >= 1 && m <= 12);
    let adj = |mm: i64| if mm > 2 && leap { 1 } else { 0 };
    assert!(days as i64 == k_cum(m as i64) + adj(m as i64) + d as i64);
    let ml = if m == 2 { if leap { 29 } else { 28 } } else { k_mdays(1, m as i64) };
    assert!(d >= 1 && d as i64 <= ml);
}

// ------------------------------------------------------------------ C07 / C13: second() accessors
fn second_matches(sec: f64, s: u32, us: u32) {
    // whole seconds are reported exactly, the fraction is the microsecond count (both parts are exact doubles;
    // one correctly rounded division): sec * 10^6 rounds to the microsecond count
    assert!(sec >= 0.0 && sec < 60.0);
    assert!(sec.floor() == s as f64);
    assert!(sec == (s as u64 * 1_000_000 + us as u64) as f64 / 1_000_000.0);
}

#[kani::proof]
fn second_accessor_time() {
    let t = any_time();
    let (_, _, s, us) = t.extract();
    second_matches(t.second().unwrap(), s, us);
    assert!(t.year().is_none() && t.date().is_none());
}

#[kani::proof]
fn second_accessor_timestamp() {
    let ts = any_timestamp();
    let t = ts.time();
    let (_, _, s, us) = t.extract();
    second_matches(ts.second().unwrap(), s, us);
}

#[kani::proof]
fn second_accessor_interval_dt() {
    let v = any_dt();
    let (sign, _, _, _, s, us) = v.extract();
    let r = v.second().unwrap();
    let mag = (s as u64 * 1_000_000 + us as u64) as f64 / 1_000_000.0;
    if v.usecs() >= 0 { assert!(r == mag); } else { assert!(r == -mag); }
    assert!(any_ym().second().is_none());
    assert!(any_date().second().is_none());
}

// ------------------------------------------------------------------ C14: scaling by a double
fn classify_dt(p: f64, r: Result<IntervalDT, Error>) {
    // everything after the multiply/divide: classification, truncation toward zero, range gate
    if p.is_infinite() {
        assert!(r == Err(Error::NumericOverflow));
    } else if p.is_nan() {
        assert!(r == Err(Error::InvalidNumber));
    } else {
        let t = p.trunc();
        if t >= -8_640_000_000_000_000_000.0 && t <= 8_640_000_000_000_000_000.0 {
            assert!(r.is_ok());
            let v = r.unwrap().usecs();
            assert!(v as f64 == t && (v as f64).trunc() == t);   // t is integral, |t| <= 8.64e18: exact as i64
            assert!(if p >= 0.0 { (v as f64) <= p } else { (v as f64) >= p });
        } else {
            assert!(r == Err(Error::IntervalOutOfRange));
        }
    }
}

fn classify_ym(p: f64, r: Result<IntervalYM, Error>) {
    if p.is_infinite() {
        assert!(r == Err(Error::NumericOverflow));
    } else if p.is_nan() {
        assert!(r == Err(Error::InvalidNumber));
    } else {
        let t = p.trunc();
        if t >= -2_136_000_000.0 && t <= 2_136_000_000.0 {
            assert!(r.is_ok());
            assert!(r.unwrap().months() as f64 == t);
        } else {
            assert!(r == Err(Error::IntervalOutOfRange));
        }
    }
}

/// unit interval: 1.0 * k == k exactly, so the product ranges over EVERY double
#[kani::proof]
fn dt_mul_f64_unit() {
    let k: f64 = kani::any();
    let one = IntervalDT::try_from_usecs(1).unwrap();
    classify_dt(k, one.mul_f64(k));
    let minus = IntervalDT::try_from_usecs(-1).unwrap();
    classify_dt(-k, minus.mul_f64(k));
    // Time delegates with the same microsecond count
    let t = Time::try_from_usecs(1).unwrap();
    classify_dt(k, t.mul_f64(k));
}

#[kani::proof]
fn ym_mul_f64_unit() {
    let k: f64 = kani::any();
    let one = IntervalYM::try_from_months(1).unwrap();
    classify_ym(k, one.mul_f64(k));
    let minus = IntervalYM::try_from_months(-1).unwrap();
    classify_ym(-k, minus.mul_f64(k));
}

/// zero interval: 0 * k is 0 for finite k and NaN for infinite/NaN k
#[kani::proof]
fn mul_f64_zero() {
    let k: f64 = kani::any();
    classify_dt(0.0 * k, IntervalDT::ZERO.mul_f64(k));
    classify_ym(0.0 * k, IntervalYM::ZERO.mul_f64(k));
}

/// the whole function against `trunc(IEEE product)`: symbolic interval x symbolic double
#[kani::proof]
fn dt_mul_f64_contract() {
    let v = any_dt();
    let k: f64 = kani::any();
    classify_dt(v.usecs() as f64 * k, v.mul_f64(k));
}

#[kani::proof]
fn ym_mul_f64_contract() {
    let v = any_ym();
    let k: f64 = kani::any();
    classify_ym(v.months() as f64 * k, v.mul_f64(k));
}

#[kani::proof]
fn dt_div_f64_contract() {
    let v = any_dt();
    let k: f64 = kani::any();
    let r = v.div_f64(k);
    if k == 0.0 {
        assert!(r == Err(Error::DivideByZero));
    } else {
        classify_dt(v.usecs() as f64 / k, r);
    }
    let t = any_time();
    let rt = t.div_f64(k);
    if k == 0.0 { assert!(rt == Err(Error::DivideByZero)); } else { classify_dt(t.usecs() as f64 / k, rt); }
}

#[kani::proof]
fn ym_div_f64_contract() {
    let v = any_ym();
    let k: f64 = kani::any();
    let r = v.div_f64(k);
    if k == 0.0 {
        assert!(r == Err(Error::DivideByZero));
    } else {
        classify_ym(v.months() as f64 / k, r);
    }
}

/// exactness for integer factors while |x*k| < 2^53, sign symmetry; operands restricted (bounded)
#[kani::proof]
fn dt_mul_f64_integer_factors_bounded() {
    let x: i64 = kani::any();
    kani::assume(x > -(1i64 << 40) && x < (1i64 << 40));
    let k: i16 = kani::any();
    kani::assume(k > -4096 && k < 4096);
    let v = IntervalDT::try_from_usecs(x).unwrap();
    let r = v.mul_f64(k as f64);
    assert!(r.is_ok() && r.unwrap().usecs() == x * k as i64);
    let n = v.negate().mul_f64(k as f64).unwrap().usecs();
    assert!(n == -(x * k as i64));
}

#[kani::proof]
fn dt_div_f64_exact_quotients_bounded() {
    let q: i32 = kani::any();
    let k: u8 = kani::any();
    kani::assume(k >= 1 && k <= 100);
    kani::assume(q > -1_000_000 && q < 1_000_000);
    let v = IntervalDT::try_from_usecs(q as i64 * k as i64).unwrap();
    let r = v.div_f64(k as f64);
    assert!(r.is_ok() && r.unwrap().usecs() == q as i64);
}
