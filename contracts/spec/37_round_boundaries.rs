// ---------------------------------------------------------------------------------------------
// C11: the closed forms used in the round_* contracts.  `*_target` is the chosen boundary as a day
// number (it may lie after the maximum date, in which case the operation fails).
// ---------------------------------------------------------------------------------------------
pub open spec fn round_year_target(n: int) -> int { let (y, m, d) = civil(n); dn(if m >= 7 { y + 1 } else { y }, 1, 1) }
pub open spec fn round_month_target(n: int) -> int {
    let (y, m, d) = civil(n);
    if d >= 16 { if m == 12 { dn(y + 1, 1, 1) } else { dn(y, m + 1, 1) } } else { dn(y, m, 1) }
}
pub open spec fn round_quarter_target(n: int) -> int {
    let (y, m, d) = civil(n);
    let q0 = (m - 1) / 3 * 3 + 1;
    let up = m > q0 + 1 || (m == q0 + 1 && d >= 16);
    let tm = if up { q0 + 3 } else { q0 };
    if tm > 12 { dn(y + 1, 1, 1) } else { dn(y, tm, 1) }
}
// weeks of every flavour: the later boundary from the fifth day of the week on
pub open spec fn round_week_like(n: int, off: int) -> int { if off >= 4 { n - off + 7 } else { n - off } }
pub open spec fn round_week_target(n: int) -> int { round_week_like(n, n - trunc_week_spec(n)) }
pub open spec fn round_iso_week_target(n: int) -> int { round_week_like(n, n - trunc_monday_spec(n)) }
pub open spec fn round_sunday_week_target(n: int) -> int { round_week_like(n, n - trunc_sunday_spec(n)) }
pub open spec fn round_month_week_target(n: int) -> int { round_week_like(n, n - trunc_month_week_spec(n)) }

// first day of the month after (y, m)
pub open spec fn next_month(y: int, m: int) -> (int, int) { if m == 12 { (y + 1, 1int) } else { (y, m + 1) } }

pub proof fn lemma_round_month(n: int)
    requires date_in_range(n)
    ensures
        // one of the two adjacent month starts
        ({ let (y, m, d) = civil(n); let nx = next_month(y, m);
           round_month_target(n) == trunc_month_spec(n) || round_month_target(n) == dn(nx.0, nx.1, 1) }),
        trunc_month_spec(n) <= round_month_target(n),
        // nothing in between: the other candidate is the NEXT month start
        forall|b: int| date_in_range(b) && is_month_start(b) && trunc_month_spec(n) < b ==> ({ let (y, m, d) = civil(n); let nx = next_month(y, m); dn(nx.0, nx.1, 1) <= b }),
        // a value already on a boundary is returned unchanged
        is_month_start(n) ==> round_month_target(n) == n,
        // the later boundary exactly from the 16th on
        (round_month_target(n) > trunc_month_spec(n)) <==> civil(n).2 >= 16,
{
    lemma_civil_props(n);
    let (y, m, d) = civil(n);
    let nx = next_month(y, m);
    lemma_within_year(y, m, d);
    lemma_year_step(y);
    assert(dn(nx.0, nx.1, 1) == dn(y, m, mdays(y, m)) + 1);
    assert(dn(y, m, 1) < dn(nx.0, nx.1, 1));
    assert forall|b: int| date_in_range(b) && is_month_start(b) && trunc_month_spec(n) < b implies dn(nx.0, nx.1, 1) <= b by {
        lemma_civil_props(b);
        let (yb, mb, db) = civil(b);
        lemma_dn_le_lex(yb, mb, db, y, m, 1);
        // (yb, mb) is lexicographically after (y, m), hence at or after the next month
        if nx.0 <= 9999 { lemma_dn_le_lex(nx.0, nx.1, 1, yb, mb, db); }
        else { assert(false) by { assert(yb >= y + 1 || (yb == y && mb > m)); } }
    }
}

pub proof fn lemma_round_month_monotone(a: int, b: int)
    requires date_in_range(a), date_in_range(b), a <= b
    ensures round_month_target(a) <= round_month_target(b)
{
    lemma_civil_props(a);
    lemma_civil_props(b);
    let (ya, ma, da) = civil(a);
    let (yb, mb, db) = civil(b);
    lemma_dn_le_lex(ya, ma, da, yb, mb, db);
    lemma_round_month(a);
    lemma_round_month(b);
    lemma_trunc_month_greatest(a);
    lemma_trunc_month_greatest(b);
    if ya == yb && ma == mb {
        // same month: the 16th rule is monotone in the day
    } else {
        // a is in an earlier month: its later candidate is the first of the month after a's, which is <= trunc(b)
        let nx = next_month(ya, ma);
        lemma_within_year(ya, ma, da);
        lemma_year_step(ya);
        assert(dn(nx.0, nx.1, 1) == dn(ya, ma, mdays(ya, ma)) + 1);
        if nx.0 <= 9999 { lemma_dn_le_lex(nx.0, nx.1, 1, yb, mb, 1); lemma_civil_of(yb, mb, 1); }
    }
}

pub proof fn lemma_round_year(n: int)
    requires date_in_range(n)
    ensures
        round_year_target(n) == trunc_year_spec(n) || round_year_target(n) == dn(civil(n).0 + 1, 1, 1),
        is_year_start(n) ==> round_year_target(n) == n,
        (round_year_target(n) > trunc_year_spec(n)) <==> civil(n).1 >= 7,
        trunc_year_spec(n) <= round_year_target(n),
{
    lemma_civil_props(n);
    let (y, m, d) = civil(n);
    lemma_year_step(y);
}

pub proof fn lemma_round_year_monotone(a: int, b: int)
    requires date_in_range(a), date_in_range(b), a <= b
    ensures round_year_target(a) <= round_year_target(b)
{
    lemma_civil_props(a);
    lemma_civil_props(b);
    let (ya, ma, da) = civil(a);
    let (yb, mb, db) = civil(b);
    lemma_dn_le_lex(ya, ma, da, yb, mb, db);
    lemma_year_step(ya);
    lemma_year_step(yb);
    if ya < yb { lemma_year_mono(ya + 1, yb); }
}

pub proof fn lemma_round_quarter(n: int)
    requires date_in_range(n)
    ensures
        is_quarter_start(n) ==> round_quarter_target(n) == n,
        trunc_quarter_spec(n) <= round_quarter_target(n),
        ({ let (y, m, d) = civil(n); let q0 = (m - 1) / 3 * 3 + 1;
           round_quarter_target(n) == trunc_quarter_spec(n) || round_quarter_target(n) == (if q0 == 10 { dn(y + 1, 1, 1) } else { dn(y, q0 + 3, 1) }) }),
{
    lemma_civil_props(n);
    let (y, m, d) = civil(n);
    let q0 = (m - 1) / 3 * 3 + 1;
    assert(q0 == 1 || q0 == 4 || q0 == 7 || q0 == 10);
    lemma_year_step(y);
    if q0 < 10 { lemma_dn_le_lex(y, q0, 1, y, q0 + 3, 1); }
    lemma_within_year(y, q0, 1);
}

// weeks: a boundary is returned unchanged; the result is within half a week of the value
pub proof fn lemma_round_week_like(n: int, t: int)
    requires t <= n, n - t < 7
    ensures
        n == t ==> round_week_like(n, n - t) == n,
        round_week_like(n, n - t) == t || round_week_like(n, n - t) == t + 7,
        (round_week_like(n, n - t) == t + 7) <==> n - t >= 4,
        -3 <= round_week_like(n, n - t) - n <= 3,
{
}

pub proof fn lemma_round_weeks(n: int)
    requires date_in_range(n)
    ensures
        is_monday(n) ==> round_iso_week_target(n) == n,
        is_sunday(n) ==> round_sunday_week_target(n) == n,
        is_month_week_start(n) ==> round_month_week_target(n) == n,
        is_year_week_start(n) ==> round_week_target(n) == n,
        is_monday(round_iso_week_target(n)), is_sunday(round_sunday_week_target(n)),
{
    lemma_trunc_weekday_greatest(n);
    lemma_trunc_month_week_greatest(n);
    lemma_trunc_week_greatest(n);
    lemma_wd(n);
    let tm = trunc_monday_spec(n);
    let tsun = trunc_sunday_spec(n);
    assert(wd(tm + 7) == wd(tm)) by { lemma_wd(tm); }
    assert(wd(tsun + 7) == wd(tsun)) by { lemma_wd(tsun); }
    if is_month_week_start(n) { assert(trunc_month_week_spec(n) == n) by { lemma_trunc_month_week_greatest(n); } }
    if is_year_week_start(n) { assert(trunc_week_spec(n) == n); }
}
