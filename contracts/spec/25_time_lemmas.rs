// Arithmetic facts about the microsecond units (proved, used by the wrappers of C07/C10/C11/C16).

pub open spec fn floor_sec(n: int) -> int { n / 1_000_000 * 1_000_000 }

// k*a is a multiple of b when a is
pub proof fn lemma_multiple(k: int, a: int, b: int, c: int)
    requires b > 0, a == b * c
    ensures (k * a) % b == 0, (k * a) / b == k * c
{
    assert(k * a == (k * c) * b) by (nonlinear_arith) requires a == b * c;
    lemma_fundamental_div_mod_converse(k * a, b, k * c, 0);
}
pub proof fn lemma_day_multiple(k: int)
    ensures (k * US_DAY()) % US_DAY() == 0, (k * US_DAY()) / US_DAY() == k,
        (k * US_DAY()) % US_SEC() == 0, (k * US_DAY()) % US_HOUR() == 0, (k * US_DAY()) % US_MIN() == 0,
        floor_sec(k * US_DAY()) == k * US_DAY(),
{
    lemma_multiple(k, US_DAY(), US_DAY(), 1);
    lemma_multiple(k, US_DAY(), US_SEC(), 86400);
    lemma_multiple(k, US_DAY(), US_HOUR(), 24);
    lemma_multiple(k, US_DAY(), US_MIN(), 1440);
}
// date/time split of a microsecond count
pub proof fn lemma_split_day(v: int)
    ensures v == (v / US_DAY()) * US_DAY() + v % US_DAY(), time_in_range(v % US_DAY()),
{
}
// combining a day number and a time of day
pub proof fn lemma_join_day(d: int, t: int)
    requires time_in_range(t)
    ensures (d * US_DAY() + t) / US_DAY() == d, (d * US_DAY() + t) % US_DAY() == t,
{
    lemma_fundamental_div_mod_converse(d * US_DAY() + t, US_DAY(), d, t);
}
// flooring to the hour / minute / second commutes with the date/time split
pub proof fn lemma_floor_units(v: int)
    ensures
        (v / US_DAY()) * US_DAY() + tod_h(v % US_DAY()) * US_HOUR() == v / US_HOUR() * US_HOUR(),
        (v / US_DAY()) * US_DAY() + tod_h(v % US_DAY()) * US_HOUR() + tod_mi(v % US_DAY()) * US_MIN() == v / US_MIN() * US_MIN(),
        (v / US_HOUR() * US_HOUR()) % US_SEC() == 0,
        (v / US_MIN() * US_MIN()) % US_SEC() == 0,
        (v / US_DAY() * US_DAY()) % US_SEC() == 0,
        floor_sec(v) % US_SEC() == 0,
{
    let d = v / US_DAY();
    let t = v % US_DAY();
    let h = t / US_HOUR();
    let r = t % US_HOUR();
    let mi = r / US_MIN();
    assert(v == d * US_DAY() + t);
    assert(t == h * US_HOUR() + r);
    assert(r == mi * US_MIN() + r % US_MIN());
    assert(d * US_DAY() == (d * 24) * US_HOUR()) by (nonlinear_arith);
    lemma_fundamental_div_mod_converse(v, US_HOUR(), d * 24 + h, r);
    assert(d * US_DAY() + h * US_HOUR() == ((d * 24 + h) * 60) * US_MIN()) by (nonlinear_arith);
    lemma_fundamental_div_mod_converse(v, US_MIN(), (d * 24 + h) * 60 + mi, r % US_MIN());
    assert(tod_mi(t) == mi);
    lemma_multiple(v / US_HOUR(), US_HOUR(), US_SEC(), 3600);
    lemma_multiple(v / US_MIN(), US_MIN(), US_SEC(), 60);
    lemma_multiple(v / US_DAY(), US_DAY(), US_SEC(), 86400);
    lemma_multiple(v / US_SEC(), US_SEC(), US_SEC(), 1);
}

// uniqueness of the mixed-radix decomposition, quantified (trigger: the sum term)
pub proof fn lemma_hms_unique_all()
    ensures
        forall|h: int, mi: int, s: int, us: int| hms_ok(h, mi, s, us) ==> {
            &&& time_in_range(#[trigger] hms_us(h, mi, s, us))
            &&& tod_h(hms_us(h, mi, s, us)) == h
            &&& tod_mi(hms_us(h, mi, s, us)) == mi
            &&& tod_s(hms_us(h, mi, s, us)) == s
            &&& tod_us(hms_us(h, mi, s, us)) == us
        },
{
    assert forall|h: int, mi: int, s: int, us: int| hms_ok(h, mi, s, us) implies {
            &&& time_in_range(#[trigger] hms_us(h, mi, s, us))
            &&& tod_h(hms_us(h, mi, s, us)) == h
            &&& tod_mi(hms_us(h, mi, s, us)) == mi
            &&& tod_s(hms_us(h, mi, s, us)) == s
            &&& tod_us(hms_us(h, mi, s, us)) == us
        } by { lemma_hms_unique(h, mi, s, us); }
}

pub proof fn lemma_dhms_unique(d: int, h: int, mi: int, s: int, us: int)
    requires hms_ok(h, mi, s, us)
    ensures
        dhms_us(d, h, mi, s, us) / US_DAY() == d,
        dhms_us(d, h, mi, s, us) % US_DAY() == hms_us(h, mi, s, us),
{
    lemma_hms_unique(h, mi, s, us);
    lemma_join_day(d, hms_us(h, mi, s, us));
}

pub proof fn lemma_mod_units(a: int)
    ensures
        (a % US_DAY()) % US_HOUR() == a % US_HOUR(),
        (a % US_DAY()) % US_MIN() == a % US_MIN(),
        (a % US_DAY()) % US_SEC() == a % US_SEC(),
        (a % US_HOUR()) % US_MIN() == a % US_MIN(),
        (a % US_MIN()) % US_SEC() == a % US_SEC(),
{
    lemma_mod_mod(a, US_HOUR(), 24);
    lemma_mod_mod(a, US_MIN(), 1440);
    lemma_mod_mod(a, US_SEC(), 86400);
    lemma_mod_mod(a, US_MIN(), 60);
    lemma_mod_mod(a, US_SEC(), 60);
}
// rounding half up at the day / hour / minute, in terms of the clock fields
pub proof fn lemma_round_units(v: int)
    ensures
        (v + US_DAY() / 2) / US_DAY() == v / US_DAY() + (if tod_h(v % US_DAY()) >= 12 { 1int } else { 0int }),
        (v + US_HOUR() / 2) / US_HOUR() * US_HOUR() == v / US_HOUR() * US_HOUR() + (if tod_mi(v % US_DAY()) >= 30 { US_HOUR() } else { 0int }),
        (v + US_MIN() / 2) / US_MIN() * US_MIN() == v / US_MIN() * US_MIN() + (if tod_s(v % US_DAY()) >= 30 { US_MIN() } else { 0int }),
        ((v + US_HOUR() / 2) / US_HOUR() * US_HOUR()) % US_SEC() == 0,
        ((v + US_MIN() / 2) / US_MIN() * US_MIN()) % US_SEC() == 0,
        ((v + US_DAY() / 2) / US_DAY() * US_DAY()) % US_SEC() == 0,
{
    lemma_mod_units(v);
    let t = v % US_DAY();
    // day
    let d = v / US_DAY();
    if tod_h(t) >= 12 {
        lemma_fundamental_div_mod_converse(v + US_DAY() / 2, US_DAY(), d + 1, t - US_DAY() / 2);
    } else {
        lemma_fundamental_div_mod_converse(v + US_DAY() / 2, US_DAY(), d, t + US_DAY() / 2);
    }
    // hour
    let qh = v / US_HOUR();
    let rh = v % US_HOUR();
    assert(tod_mi(t) == rh / US_MIN());
    if rh / US_MIN() >= 30 {
        lemma_fundamental_div_mod_converse(v + US_HOUR() / 2, US_HOUR(), qh + 1, rh - US_HOUR() / 2);
        assert((qh + 1) * US_HOUR() == qh * US_HOUR() + US_HOUR()) by (nonlinear_arith);
    } else {
        lemma_fundamental_div_mod_converse(v + US_HOUR() / 2, US_HOUR(), qh, rh + US_HOUR() / 2);
    }
    // minute
    let qm = v / US_MIN();
    let rm = v % US_MIN();
    assert(tod_s(t) == rm / US_SEC());
    if rm / US_SEC() >= 30 {
        lemma_fundamental_div_mod_converse(v + US_MIN() / 2, US_MIN(), qm + 1, rm - US_MIN() / 2);
        assert((qm + 1) * US_MIN() == qm * US_MIN() + US_MIN()) by (nonlinear_arith);
    } else {
        lemma_fundamental_div_mod_converse(v + US_MIN() / 2, US_MIN(), qm, rm + US_MIN() / 2);
    }
    lemma_multiple((v + US_HOUR() / 2) / US_HOUR(), US_HOUR(), US_SEC(), 3600);
    lemma_multiple((v + US_MIN() / 2) / US_MIN(), US_MIN(), US_SEC(), 60);
    lemma_multiple((v + US_DAY() / 2) / US_DAY(), US_DAY(), US_SEC(), 86400);
}

// the carry chain of rounding to the minute / hour, spelled out in clock fields
pub proof fn lemma_round_carry(v: int)
    ensures
        ({
            let d = v / US_DAY(); let t = v % US_DAY();
            let h = tod_h(t); let mi = tod_mi(t); let s = tod_s(t);
            &&& (v + US_MIN() / 2) / US_MIN() * US_MIN() == (
                    if s >= 30 {
                        if mi == 59 { if h == 23 { (d + 1) * US_DAY() } else { d * US_DAY() + (h + 1) * US_HOUR() } }
                        else { d * US_DAY() + h * US_HOUR() + (mi + 1) * US_MIN() }
                    } else { d * US_DAY() + h * US_HOUR() + mi * US_MIN() })
            &&& (v + US_HOUR() / 2) / US_HOUR() * US_HOUR() == (
                    if mi >= 30 { if h >= 23 { (d + 1) * US_DAY() } else { d * US_DAY() + (h + 1) * US_HOUR() } }
                    else { d * US_DAY() + h * US_HOUR() })
            &&& 0 <= h < 24 && 0 <= mi < 60 && 0 <= s < 60
        }),
{
    lemma_round_units(v);
    lemma_floor_units(v);
    lemma_split_day(v);
    let d = v / US_DAY(); let t = v % US_DAY();
    lemma_tod(t);
    assert((d + 1) * US_DAY() == d * US_DAY() + US_DAY()) by (nonlinear_arith);
}

// Rust's truncating remainder of i by one day
pub open spec fn trem_day(i: int) -> int { if i >= 0 { i % US_DAY() } else { -((-i) % US_DAY()) } }
pub proof fn lemma_time_add(t: int, i: int)
    requires time_in_range(t)
    ensures
        -US_DAY() < trem_day(i) < US_DAY(),
        t + trem_day(i) >= 0 ==> (t + trem_day(i)) % US_DAY() == (t + i) % US_DAY(),
        t + trem_day(i) < 0 ==> t + trem_day(i) + US_DAY() == (t + i) % US_DAY(),
{
    let ir = trem_day(i);
    // i == q * D + ir for some q
    let q = if i >= 0 { i / US_DAY() } else { -((-i) / US_DAY()) };
    assert(i == q * US_DAY() + ir);
    lemma_mod_multiples_vanish(q, t + ir, US_DAY());
    assert((t + i) % US_DAY() == (t + ir) % US_DAY()) by {
        assert(t + i == US_DAY() * q + (t + ir)) by (nonlinear_arith) requires i == q * US_DAY() + ir;
    }
    if t + ir < 0 {
        lemma_fundamental_div_mod_converse(t + ir, US_DAY(), -1, t + ir + US_DAY());
    }
}

// adding whole days does not change the sub-second (or sub-day) part
pub proof fn lemma_day_shift(x: int, t: int)
    ensures
        (x * US_DAY() + t) % US_SEC() == t % US_SEC(),
        (x * US_DAY() + t) % US_DAY() == t % US_DAY(),
        (x * US_DAY() + t) / US_DAY() == x + t / US_DAY(),
{
    assert(x * US_DAY() == (x * 86400) * US_SEC()) by (nonlinear_arith);
    lemma_mod_multiples_vanish(x * 86400, t, US_SEC());
    lemma_mod_multiples_vanish(x, t, US_DAY());
    lemma_fundamental_div_mod_converse(x * US_DAY() + t, US_DAY(), x + t / US_DAY(), t % US_DAY());
}

pub proof fn lemma_div_step(y: int, k: int)
    requires k > 0
    ensures y / k == (y - 1) / k + (if y % k == 0 { 1int } else { 0int })
{
    let q = (y - 1) / k;
    let r = (y - 1) % k;
    lemma_fundamental_div_mod(y - 1, k);
    if r + 1 == k {
        assert(y == (q + 1) * k) by (nonlinear_arith) requires y - 1 == k * q + r, r + 1 == k;
        lemma_fundamental_div_mod_converse(y, k, q + 1, 0);
    } else {
        assert(y == q * k + (r + 1)) by (nonlinear_arith) requires y - 1 == k * q + r;
        lemma_fundamental_div_mod_converse(y, k, q, r + 1);
    }
}

// Rust's truncating quotient by one day, and its relation to floor division
pub open spec fn tquot_day(i: int) -> int { if i >= 0 { i / US_DAY() } else { -((-i) / US_DAY()) } }
pub proof fn lemma_trunc_day(v: int)
    ensures
        v == tquot_day(v) * US_DAY() + trem_day(v),
        -US_DAY() < trem_day(v) < US_DAY(),
        v >= 0 ==> trem_day(v) >= 0,
        v < 0 ==> trem_day(v) <= 0,
        trem_day(v) < 0 ==> v / US_DAY() == tquot_day(v) - 1 && v % US_DAY() == trem_day(v) + US_DAY(),
        trem_day(v) >= 0 ==> v / US_DAY() == tquot_day(v) && v % US_DAY() == trem_day(v),
{
    let q = tquot_day(v);
    let r = trem_day(v);
    assert(v == q * US_DAY() + r);
    if r < 0 {
        assert(v == (q - 1) * US_DAY() + (r + US_DAY())) by (nonlinear_arith) requires v == q * US_DAY() + r;
        lemma_fundamental_div_mod_converse(v, US_DAY(), q - 1, r + US_DAY());
    } else {
        lemma_fundamental_div_mod_converse(v, US_DAY(), q, r);
    }
}

// Timestamp::add_days: the day count scaled to microseconds and rounded in IEEE arithmetic (named operations,
// 20_units.rs), converted to an integer, added exactly; None when the product is not finite or the sum leaves the range
pub open spec fn spec_ts_days_us(days: f64) -> f64 { spec_ieee_round(spec_ieee_mul(days, spec_ieee_from_i64(86_400_000_000))) }
pub open spec fn spec_ts_add_days(v: int, days: f64) -> Option<int> {
    let m = spec_ts_days_us(days);
    if spec_ieee_is_infinite(m) || spec_ieee_is_nan(m) { None }
    else if ts_in_range(v + spec_ieee_to_i64(m)) { Some(v + spec_ieee_to_i64(m)) } else { None }
}

// nearest whole second, ties away from zero
pub open spec fn round_sec(u: int) -> int {
    let f = u % 1_000_000;
    let s = u - f;
    if f > 500_000 || (f == 500_000 && u >= 0) { s + 1_000_000 } else { s }
}

pub proof fn lemma_round_sec(u: int)
    ensures
        round_sec(u) % 1_000_000 == 0,
        -500_000 <= round_sec(u) - u <= 500_000,
{
    let f = u % 1_000_000;
    let q = u / 1_000_000;
    assert(u == 1_000_000 * q + f);
    lemma_multiple(q, 1_000_000, 1_000_000, 1);
    lemma_multiple(q + 1, 1_000_000, 1_000_000, 1);
    assert((q + 1) * 1_000_000 == q * 1_000_000 + 1_000_000) by (nonlinear_arith);
}
