// Documented ranges of the six types and the mixed-radix field arithmetic, written from
// the property statements (C02, C07, C12, C13, C16).  `DAY` etc. are microsecond counts.

pub open spec fn US_DAY() -> int { 86_400_000_000 }
pub open spec fn US_HOUR() -> int { 3_600_000_000 }
pub open spec fn US_MIN() -> int { 60_000_000 }
pub open spec fn US_SEC() -> int { 1_000_000 }

// dates 0001-01-01 ..= 9999-12-31 as day numbers (1970-01-01 = 0)
pub open spec fn date_in_range(n: int) -> bool { -719162 <= n <= 2932896 }
// times of day 00:00:00 ..= 23:59:59.999999
pub open spec fn time_in_range(n: int) -> bool { 0 <= n < 86_400_000_000 }
// timestamps 0001-01-01 00:00:00 ..= 9999-12-31 23:59:59.999999
pub open spec fn ts_in_range(n: int) -> bool { -62_135_596_800_000_000 <= n <= 253_402_300_799_999_999 }
// year-month intervals within +/-178000000-00
pub open spec fn ym_in_range(n: int) -> bool { -2_136_000_000 <= n <= 2_136_000_000 }
// day-time intervals within +/-100000000 00:00:00
pub open spec fn dt_in_range(n: int) -> bool { -8_640_000_000_000_000_000 <= n <= 8_640_000_000_000_000_000 }
// Oracle-style date: a timestamp with a zero sub-second part, up to 9999-12-31 23:59:59
pub open spec fn od_in_range(n: int) -> bool { ts_in_range(n) && n % 1_000_000 == 0 }

// the range ends are the documented calendar dates
pub proof fn lemma_range_ends()
    ensures
        dn(1, 1, 1) == -719162,
        dn(9999, 12, 31) == 2932896,
        dn(1970, 1, 1) == 0,
        dn(1, 1, 1) * US_DAY() == -62_135_596_800_000_000,
        dn(9999, 12, 31) * US_DAY() + US_DAY() - 1 == 253_402_300_799_999_999,
        178_000_000 * 12 == 2_136_000_000,
        100_000_000 * US_DAY() == 8_640_000_000_000_000_000,
{
    assert(ld(0) == 0);
    assert(ld(9998) == 2424) by (compute);
    assert(ld(1969) == 477) by (compute);
    assert(leap(9999) == false) by (compute);
    assert(leap(1970) == false) by (compute);
}

pub open spec fn hms_ok(h: int, mi: int, s: int, us: int) -> bool {
    0 <= h < 24 && 0 <= mi < 60 && 0 <= s < 60 && 0 <= us < 1_000_000
}
pub open spec fn hms_us(h: int, mi: int, s: int, us: int) -> int {
    h * 3_600_000_000 + mi * 60_000_000 + s * 1_000_000 + us
}
pub open spec fn dhms_us(d: int, h: int, mi: int, s: int, us: int) -> int {
    d * 86_400_000_000 + hms_us(h, mi, s, us)
}

// floor division / non-negative remainder (Verus `/` and `%` on `int` are Euclidean)
pub open spec fn fdiv(a: int, b: int) -> int { a / b }
pub open spec fn fmod(a: int, b: int) -> int { a % b }

// the time-of-day digits of a microsecond count in 0..86_400_000_000
pub open spec fn tod_h(t: int) -> int { t / 3_600_000_000 }
pub open spec fn tod_mi(t: int) -> int { (t % 3_600_000_000) / 60_000_000 }
pub open spec fn tod_s(t: int) -> int { (t % 60_000_000) / 1_000_000 }
pub open spec fn tod_us(t: int) -> int { t % 1_000_000 }

pub proof fn lemma_tod(t: int)
    requires time_in_range(t)
    ensures
        hms_ok(tod_h(t), tod_mi(t), tod_s(t), tod_us(t)),
        hms_us(tod_h(t), tod_mi(t), tod_s(t), tod_us(t)) == t,
{
    vstd::arithmetic::div_mod::lemma_mod_mod(t, 60_000_000, 60);
    vstd::arithmetic::div_mod::lemma_mod_mod(t, 1_000_000, 60);
    let r1 = t % 3_600_000_000;
    let r2 = t % 60_000_000;
    vstd::arithmetic::div_mod::lemma_fundamental_div_mod(t, 3_600_000_000);
    vstd::arithmetic::div_mod::lemma_fundamental_div_mod(r1, 60_000_000);
    vstd::arithmetic::div_mod::lemma_fundamental_div_mod(r2, 1_000_000);
    assert(r1 % 60_000_000 == r2);
    assert(r2 % 1_000_000 == t % 1_000_000);
}

pub proof fn lemma_hms_unique(h: int, mi: int, s: int, us: int)
    requires hms_ok(h, mi, s, us)
    ensures
        time_in_range(hms_us(h, mi, s, us)),
        tod_h(hms_us(h, mi, s, us)) == h,
        tod_mi(hms_us(h, mi, s, us)) == mi,
        tod_s(hms_us(h, mi, s, us)) == s,
        tod_us(hms_us(h, mi, s, us)) == us,
{
    let t = hms_us(h, mi, s, us);
    vstd::arithmetic::div_mod::lemma_fundamental_div_mod_converse(t, 3_600_000_000, h, mi * 60_000_000 + s * 1_000_000 + us);
    vstd::arithmetic::div_mod::lemma_fundamental_div_mod_converse(mi * 60_000_000 + s * 1_000_000 + us, 60_000_000, mi, s * 1_000_000 + us);
    assert(t == (h * 60 + mi) * 60_000_000 + (s * 1_000_000 + us)) by (nonlinear_arith) requires t == h * 3_600_000_000 + mi * 60_000_000 + s * 1_000_000 + us;
    vstd::arithmetic::div_mod::lemma_fundamental_div_mod_converse(t, 60_000_000, h * 60 + mi, s * 1_000_000 + us);
    vstd::arithmetic::div_mod::lemma_fundamental_div_mod_converse(s * 1_000_000 + us, 1_000_000, s, us);
    assert(t == ((h * 60 + mi) * 60 + s) * 1_000_000 + us) by (nonlinear_arith) requires t == h * 3_600_000_000 + mi * 60_000_000 + s * 1_000_000 + us;
    vstd::arithmetic::div_mod::lemma_fundamental_div_mod_converse(t, 1_000_000, (h * 60 + mi) * 60 + s, us);
}

// weekday number, Sunday = 1 .. Saturday = 7; day number 0 (1970-01-01) is a Thursday (5)
pub open spec fn wd(n: int) -> int { (n + 4) % 7 + 1 }

pub proof fn lemma_wd(n: int)
    ensures 1 <= wd(n) <= 7, wd(n + 1) == wd(n) % 7 + 1, wd(0) == 5, wd(n + 7) == wd(n),
{
}

pub open spec fn abs(a: int) -> int { if a >= 0 { a } else { -a } }
pub open spec fn sign_of(a: int) -> int { if a >= 0 { 1 } else { -1 } }

// ---- IEEE double operations, named.  Verus leaves every operation on `f64` unspecified; the extractor rewrites each
// one into a wrapper below (rewrite `ieee-ops-named`), whose only assumed property is that the hardware operation is
// a FUNCTION of its operands.  Contracts can then pin down the STRUCTURE of a double computation for all inputs:
// which integers reach the conversion, what is multiplied / divided by what, how the result is classified and
// converted back, which error variant each class maps to.  What the operations themselves compute (correct
// rounding, saturating casts, NaN / infinity classes) is outside Verus and checked on the real code by the Kani
// unit obligations (`*_mul_f64_unit`, `div_f64_zero_dividend`, `ts_add_days_range`, ...).
pub uninterp spec fn spec_ieee_from_i64(x: int) -> f64;
pub uninterp spec fn spec_ieee_mul(a: f64, b: f64) -> f64;
pub uninterp spec fn spec_ieee_div(a: f64, b: f64) -> f64;
pub uninterp spec fn spec_ieee_round(a: f64) -> f64;
pub uninterp spec fn spec_ieee_neg(a: f64) -> f64;
pub uninterp spec fn spec_ieee_is_infinite(a: f64) -> bool;
pub uninterp spec fn spec_ieee_is_nan(a: f64) -> bool;
pub uninterp spec fn spec_ieee_is_zero(a: f64) -> bool;        // a == 0.0 (either sign)
pub uninterp spec fn spec_ieee_to_i64(a: f64) -> int;          // `a as i64`
pub uninterp spec fn spec_ieee_to_i32(a: f64) -> int;          // `a as i32`
/// the fractional second of a sub-minute microsecond count
pub open spec fn spec_second_of(n: int) -> f64 { spec_ieee_div(spec_ieee_from_i64(n), spec_ieee_from_i64(1_000_000)) }

#[verifier::external_body]
pub fn ieee_from_i64(x: i64) -> (r: f64) ensures r == spec_ieee_from_i64(x as int), { x as f64 }
#[verifier::external_body]
pub fn ieee_mul(a: f64, b: f64) -> (r: f64)
    // IEEE multiplication is commutative (assumed; a NaN result's payload is not observed by any contract)
    ensures r == spec_ieee_mul(a, b), r == spec_ieee_mul(b, a),
{ a * b }
#[verifier::external_body]
pub fn ieee_div(a: f64, b: f64) -> (r: f64) ensures r == spec_ieee_div(a, b), { a / b }
#[verifier::external_body]
pub fn ieee_round(a: f64) -> (r: f64) ensures r == spec_ieee_round(a), { a.round() }
#[verifier::external_body]
pub fn ieee_neg(a: f64) -> (r: f64) ensures r == spec_ieee_neg(a), { -a }
#[verifier::external_body]
pub fn ieee_is_infinite(a: f64) -> (r: bool) ensures r == spec_ieee_is_infinite(a), { a.is_infinite() }
#[verifier::external_body]
pub fn ieee_is_nan(a: f64) -> (r: bool) ensures r == spec_ieee_is_nan(a), { a.is_nan() }
#[verifier::external_body]
pub fn ieee_is_zero(a: f64) -> (r: bool) ensures r == spec_ieee_is_zero(a), { a == 0.0 }
#[verifier::external_body]
pub fn ieee_to_i64(a: f64) -> (r: i64) ensures r as int == spec_ieee_to_i64(a), { a as i64 }
#[verifier::external_body]
pub fn ieee_to_i32(a: f64) -> (r: i32) ensures r as int == spec_ieee_to_i32(a), { a as i32 }
