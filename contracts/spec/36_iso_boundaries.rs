// C10/C11: ISO-year starts are Mondays, strictly increasing by 364 or 371 days; trunc_iso_year is the greatest one not after n
// ---- ISO years
pub proof fn lemma_iso_start_bounds(y: int)
    ensures dn(y, 1, 1) - 3 <= iso_start(y) <= dn(y, 1, 4), wd(iso_start(y)) == 2,
{
    lemma_wd(dn(y, 1, 4));
    let j = dn(y, 1, 4);
    let off = (wd(j) + 5) % 7;
    assert(0 <= off <= 6);
    assert(dn(y, 1, 4) == dn(y, 1, 1) + 3);
    assert(wd(j - off) == 2) by {
        assert(((j - off) + 4) % 7 == 1) by {
            // (j+4)%7 = wd(j)-1 ; off = (wd(j)+5)%7 = (wd(j)-2) mod 7
            let w = wd(j);
            assert(1 <= w <= 7);
            assert((j + 4) % 7 == w - 1);
            assert(off == (if w >= 2 { w - 2 } else { 6int }));
            assert((j + 4 - off) % 7 == 1) by {
                if w >= 2 { vstd::arithmetic::div_mod::lemma_fundamental_div_mod_converse(j + 4 - off, 7, (j + 4) / 7, 1); }
                else { vstd::arithmetic::div_mod::lemma_fundamental_div_mod_converse(j + 4 - off, 7, (j + 4) / 7 - 1, 1); }
            }
        }
    }
}

pub proof fn lemma_iso_start_step(y: int)
    ensures iso_start(y) + 364 <= iso_start(y + 1),
{
    lemma_iso_start_bounds(y);
    lemma_iso_start_bounds(y + 1);
    lemma_year_step(y);
    // both are Mondays, at least 365-3-... apart: difference is a multiple of 7 and >= 359
    let a = iso_start(y);
    let b = iso_start(y + 1);
    assert(b - a >= 365 - 3 - 3);
    assert((a + 4) % 7 == 1 && (b + 4) % 7 == 1);
    assert((b - a) % 7 == 0) by {
        vstd::arithmetic::div_mod::lemma_fundamental_div_mod(a + 4, 7);
        vstd::arithmetic::div_mod::lemma_fundamental_div_mod(b + 4, 7);
        let qa = (a + 4) / 7; let qb = (b + 4) / 7;
        assert(b - a == 7 * (qb - qa));
        vstd::arithmetic::div_mod::lemma_fundamental_div_mod_converse(b - a, 7, qb - qa, 0);
    }
    assert(b - a >= 364) by { if b - a < 364 { assert(b - a >= 359); assert((b - a) % 7 == 0); assert(b - a == 357 + (b - a - 357)); } }
}

pub proof fn lemma_iso_start_mono(y1: int, y2: int)
    requires y1 <= y2
    ensures iso_start(y1) + 364 * (y2 - y1) <= iso_start(y2)
    decreases y2 - y1
{
    if y1 < y2 { lemma_iso_start_mono(y1, y2 - 1); lemma_iso_start_step(y2 - 1); }
}

pub proof fn lemma_iso_ends()
    ensures iso_start(1) == -719162, iso_start(10000) == 2932899,
{
    lemma_range_ends();
    lemma_year_step(9999);
    assert(dn(1, 1, 4) == -719159);
    assert(dn(10000, 1, 4) == 2932900);
    assert(wd(-719159) == 5) by (compute);
    assert(wd(2932900) == 3) by (compute);
}

pub open spec fn trunc_iso_year_spec(n: int) -> int { iso_start(iso_year_of(n)) }

pub proof fn lemma_iso_year_bracket(n: int)
    requires date_in_range(n)
    ensures iso_start(iso_year_of(n)) <= n < iso_start(iso_year_of(n) + 1),
{
    lemma_civil_props(n);
    let (y, m, d) = civil(n);
    lemma_within_year(y, m, d);
    let j0 = dn(y - 1, 1, 1); let j1 = dn(y, 1, 1); let j2 = dn(y + 1, 1, 1); let j3 = dn(y + 2, 1, 1);
    lemma_year_step(y - 1);
    lemma_year_step(y);
    lemma_year_step(y + 1);
    assert(j1 >= j0 + 365 && j2 >= j1 + 365 && j3 >= j2 + 365);
    assert(j1 <= n < j2);
    lemma_iso_start_bounds(y - 1);
    lemma_iso_start_bounds(y);
    lemma_iso_start_bounds(y + 1);
    lemma_iso_start_bounds(y + 2);
    assert(dn(y - 1, 1, 4) == j0 + 3);
    assert(iso_start(y - 1) <= j0 + 3);
    assert(iso_start(y + 2) >= j3 - 3);
    if n < iso_start(y) {
        assert(iso_year_of(n) == y - 1);
    } else if n >= iso_start(y + 1) {
        assert(iso_year_of(n) == y + 1);
    } else {
        assert(iso_year_of(n) == y);
    }
}

pub proof fn lemma_trunc_iso_year_greatest(n: int)
    requires date_in_range(n)
    ensures
        1 <= iso_year_of(n) <= 9999,
        is_iso_year_start(trunc_iso_year_spec(n)), trunc_iso_year_spec(n) <= n, date_in_range(trunc_iso_year_spec(n)),
        forall|b: int| b <= n && is_iso_year_start(b) ==> b <= trunc_iso_year_spec(n),
{
    lemma_iso_ends();
    lemma_iso_year_bracket(n);
    let iy = iso_year_of(n);
    assert(1 <= iy <= 9999) by {
        if iy < 1 { lemma_iso_start_mono(iy + 1, 1); }
        if iy > 9999 { lemma_iso_start_mono(10000, iy); }
    }
    assert(iso_start(iy) >= -719162) by { lemma_iso_start_mono(1, iy); }
    assert(is_iso_year_start(iso_start(iy)));
    assert forall|b: int| b <= n && is_iso_year_start(b) implies b <= trunc_iso_year_spec(n) by {
        let yb = choose|yy: int| 1 <= yy <= 9999 && b == #[trigger] iso_start(yy);
        if yb > iy { lemma_iso_start_mono(iy + 1, yb); }
        else { lemma_iso_start_mono(yb, iy); }
    }
}
