// ---------------------------------------------------------------------------------------------
// C10: the closed forms used in the trunc_* contracts ARE "the greatest unit boundary not after the value".
// For each unit: a boundary predicate written from the property sentence, and a lemma that the closed
// form is a boundary, is <= n, and dominates every boundary <= n.
// ---------------------------------------------------------------------------------------------
pub open spec fn lex_le(y1: int, m1: int, d1: int, y2: int, m2: int, d2: int) -> bool {
    lex_lt(y1, m1, d1, y2, m2, d2) || (y1 == y2 && m1 == m2 && d1 == d2)
}

// order of day numbers == lexicographic order of the civil dates
pub proof fn lemma_dn_le_lex(y1: int, m1: int, d1: int, y2: int, m2: int, d2: int)
    requires valid_ymd(y1, m1, d1), valid_ymd(y2, m2, d2)
    ensures dn(y1, m1, d1) <= dn(y2, m2, d2) <==> lex_le(y1, m1, d1, y2, m2, d2)
{
    if lex_lt(y1, m1, d1, y2, m2, d2) { lemma_rata_strict_mono(y1, m1, d1, y2, m2, d2); }
    if lex_lt(y2, m2, d2, y1, m1, d1) { lemma_rata_strict_mono(y2, m2, d2, y1, m1, d1); }
}

pub open spec fn is_year_start(b: int) -> bool { civil(b).1 == 1 && civil(b).2 == 1 }
pub open spec fn is_century_start(b: int) -> bool { is_year_start(b) && civil(b).0 % 100 == 1 }
pub open spec fn is_quarter_start(b: int) -> bool { civil(b).2 == 1 && (civil(b).1 == 1 || civil(b).1 == 4 || civil(b).1 == 7 || civil(b).1 == 10) }
pub open spec fn is_month_start(b: int) -> bool { civil(b).2 == 1 }
pub open spec fn is_year_week_start(b: int) -> bool { (b - dn(civil(b).0, 1, 1)) % 7 == 0 }
pub open spec fn is_month_week_start(b: int) -> bool { (civil(b).2 - 1) % 7 == 0 }
pub open spec fn is_sunday(b: int) -> bool { wd(b) == 1 }
pub open spec fn is_monday(b: int) -> bool { wd(b) == 2 }
pub open spec fn is_iso_year_start(b: int) -> bool { exists|y: int| 1 <= y <= 9999 && b == #[trigger] iso_start(y) }

pub open spec fn trunc_century_spec(n: int) -> int { let (y, m, d) = civil(n); dn((y - 1) / 100 * 100 + 1, 1, 1) }
pub open spec fn trunc_year_spec(n: int) -> int { let (y, m, d) = civil(n); dn(y, 1, 1) }
pub open spec fn trunc_quarter_spec(n: int) -> int { let (y, m, d) = civil(n); dn(y, (m - 1) / 3 * 3 + 1, 1) }
pub open spec fn trunc_month_spec(n: int) -> int { let (y, m, d) = civil(n); dn(y, m, 1) }
pub open spec fn trunc_week_spec(n: int) -> int { let (y, m, d) = civil(n); n - (n - dn(y, 1, 1)) % 7 }
pub open spec fn trunc_month_week_spec(n: int) -> int { let (y, m, d) = civil(n); dn(y, m, (d - 1) / 7 * 7 + 1) }
pub open spec fn trunc_sunday_spec(n: int) -> int { n - (wd(n) - 1) }
pub open spec fn trunc_monday_spec(n: int) -> int { n - (wd(n) + 5) % 7 }

// helper: civil of a constructed in-range date
pub proof fn lemma_civil_of(y: int, m: int, d: int)
    requires date_ok(y, m, d)
    ensures civil(dn(y, m, d)) == (y, m, d), date_in_range(dn(y, m, d))
{
    lemma_rata_bounds(y, m, d);
    lemma_civil_unique(dn(y, m, d));
}

pub proof fn lemma_trunc_month_greatest(n: int)
    requires date_in_range(n)
    ensures
        is_month_start(trunc_month_spec(n)), trunc_month_spec(n) <= n, date_in_range(trunc_month_spec(n)),
        forall|b: int| date_in_range(b) && b <= n && is_month_start(b) ==> b <= trunc_month_spec(n),
{
    lemma_civil_props(n);
    let (y, m, d) = civil(n);
    lemma_civil_of(y, m, 1);
    lemma_dn_le_lex(y, m, 1, y, m, d);
    assert forall|b: int| date_in_range(b) && b <= n && is_month_start(b) implies b <= trunc_month_spec(n) by {
        lemma_civil_props(b);
        let (yb, mb, db) = civil(b);
        lemma_dn_le_lex(yb, mb, db, y, m, d);
        lemma_dn_le_lex(yb, mb, 1, y, m, 1);
    }
}

pub proof fn lemma_trunc_year_greatest(n: int)
    requires date_in_range(n)
    ensures
        is_year_start(trunc_year_spec(n)), trunc_year_spec(n) <= n, date_in_range(trunc_year_spec(n)),
        forall|b: int| date_in_range(b) && b <= n && is_year_start(b) ==> b <= trunc_year_spec(n),
{
    lemma_civil_props(n);
    let (y, m, d) = civil(n);
    lemma_civil_of(y, 1, 1);
    lemma_dn_le_lex(y, 1, 1, y, m, d);
    assert forall|b: int| date_in_range(b) && b <= n && is_year_start(b) implies b <= trunc_year_spec(n) by {
        lemma_civil_props(b);
        let (yb, mb, db) = civil(b);
        lemma_dn_le_lex(yb, mb, db, y, m, d);
        lemma_dn_le_lex(yb, 1, 1, y, 1, 1);
    }
}

pub proof fn lemma_trunc_century_greatest(n: int)
    requires date_in_range(n)
    ensures
        is_century_start(trunc_century_spec(n)), trunc_century_spec(n) <= n, date_in_range(trunc_century_spec(n)),
        forall|b: int| date_in_range(b) && b <= n && is_century_start(b) ==> b <= trunc_century_spec(n),
{
    lemma_civil_props(n);
    let (y, m, d) = civil(n);
    let c = (y - 1) / 100 * 100 + 1;
    assert(1 <= c <= y && c % 100 == 1 && y - c < 100);
    lemma_civil_of(c, 1, 1);
    lemma_dn_le_lex(c, 1, 1, y, m, d);
    assert forall|b: int| date_in_range(b) && b <= n && is_century_start(b) implies b <= trunc_century_spec(n) by {
        lemma_civil_props(b);
        let (yb, mb, db) = civil(b);
        lemma_dn_le_lex(yb, mb, db, y, m, d);
        // yb <= y and yb % 100 == 1  ==>  yb <= c
        assert(yb <= y);
        assert(yb <= c) by {
            if yb > c { assert((yb - 1) / 100 > (c - 1) / 100); assert((yb - 1) / 100 * 100 + 1 == yb); assert(yb - 1 >= (c - 1) + 100); }
        }
        lemma_dn_le_lex(yb, 1, 1, c, 1, 1);
    }
}

pub proof fn lemma_trunc_quarter_greatest(n: int)
    requires date_in_range(n)
    ensures
        is_quarter_start(trunc_quarter_spec(n)), trunc_quarter_spec(n) <= n, date_in_range(trunc_quarter_spec(n)),
        forall|b: int| date_in_range(b) && b <= n && is_quarter_start(b) ==> b <= trunc_quarter_spec(n),
{
    lemma_civil_props(n);
    let (y, m, d) = civil(n);
    let q = (m - 1) / 3 * 3 + 1;
    assert(q == 1 || q == 4 || q == 7 || q == 10);
    assert(q <= m < q + 3);
    lemma_civil_of(y, q, 1);
    lemma_dn_le_lex(y, q, 1, y, m, d);
    assert forall|b: int| date_in_range(b) && b <= n && is_quarter_start(b) implies b <= trunc_quarter_spec(n) by {
        lemma_civil_props(b);
        let (yb, mb, db) = civil(b);
        lemma_dn_le_lex(yb, mb, db, y, m, d);
        lemma_dn_le_lex(yb, mb, 1, y, q, 1);
    }
}

pub proof fn lemma_trunc_month_week_greatest(n: int)
    requires date_in_range(n)
    ensures
        is_month_week_start(trunc_month_week_spec(n)), trunc_month_week_spec(n) <= n, date_in_range(trunc_month_week_spec(n)),
        n - trunc_month_week_spec(n) < 7,
        forall|b: int| date_in_range(b) && b <= n && is_month_week_start(b) ==> b <= trunc_month_week_spec(n),
{
    lemma_civil_props(n);
    let (y, m, d) = civil(n);
    let w = (d - 1) / 7 * 7 + 1;
    assert(1 <= w <= d && d - w < 7 && (w - 1) % 7 == 0);
    lemma_civil_of(y, m, w);
    lemma_dn_le_lex(y, m, w, y, m, d);
    assert(dn(y, m, d) - dn(y, m, w) == d - w);
    assert forall|b: int| date_in_range(b) && b <= n && is_month_week_start(b) implies b <= trunc_month_week_spec(n) by {
        lemma_civil_props(b);
        let (yb, mb, db) = civil(b);
        lemma_dn_le_lex(yb, mb, db, y, m, d);
        if yb == y && mb == m {
            // same month: db <= d and db = 1 (mod 7)  ==> db <= w
            assert(db <= d);
            assert(db <= w) by { if db > w { assert((db - 1) / 7 > (w - 1) / 7); assert((db - 1) / 7 * 7 == db - 1); } }
            assert(dn(yb, mb, db) - dn(y, m, w) == db - w);
        } else {
            lemma_dn_le_lex(yb, mb, db, y, m, w);
        }
    }
}

pub proof fn lemma_trunc_weekday_greatest(n: int)
    ensures
        is_sunday(trunc_sunday_spec(n)), trunc_sunday_spec(n) <= n, n - trunc_sunday_spec(n) < 7,
        forall|b: int| b <= n && is_sunday(b) ==> b <= trunc_sunday_spec(n),
        is_monday(trunc_monday_spec(n)), trunc_monday_spec(n) <= n, n - trunc_monday_spec(n) < 7,
        forall|b: int| b <= n && is_monday(b) ==> b <= trunc_monday_spec(n),
{
    assert forall|b: int| b <= n && is_sunday(b) implies b <= trunc_sunday_spec(n) by {
        if b > trunc_sunday_spec(n) { assert(0 < b - trunc_sunday_spec(n) < 7); assert((b + 4) % 7 == (trunc_sunday_spec(n) + 4) % 7); }
    }
    assert forall|b: int| b <= n && is_monday(b) implies b <= trunc_monday_spec(n) by {
        if b > trunc_monday_spec(n) { assert(0 < b - trunc_monday_spec(n) < 7); assert((b + 4) % 7 == (trunc_monday_spec(n) + 4) % 7); }
    }
}

pub proof fn lemma_trunc_week_greatest(n: int)
    requires date_in_range(n)
    ensures
        is_year_week_start(trunc_week_spec(n)), trunc_week_spec(n) <= n, n - trunc_week_spec(n) < 7, date_in_range(trunc_week_spec(n)),
        forall|b: int| date_in_range(b) && b <= n && is_year_week_start(b) ==> b <= trunc_week_spec(n),
{
    lemma_civil_props(n);
    let (y, m, d) = civil(n);
    lemma_civil_of(y, 1, 1);
    lemma_dn_le_lex(y, 1, 1, y, m, d);
    let j = dn(y, 1, 1);
    let r = n - (n - j) % 7;
    assert(j <= r <= n);
    // r lies in the same year as n
    lemma_civil_props(r);
    let (yr, mr, dr) = civil(r);
    lemma_dn_le_lex(yr, mr, dr, y, m, d);
    lemma_dn_le_lex(y, 1, 1, yr, mr, dr);
    assert(yr == y);
    assert((r - j) % 7 == 0);
    assert forall|b: int| date_in_range(b) && b <= n && is_year_week_start(b) implies b <= trunc_week_spec(n) by {
        lemma_civil_props(b);
        let (yb, mb, db) = civil(b);
        lemma_dn_le_lex(yb, mb, db, y, m, d);
        if yb == y {
            if b > r { assert(0 < b - r < 7); assert((b - j) % 7 == (r - j) % 7); }
        } else {
            // an earlier year: b precedes 1 January of y, which is <= r
            lemma_dn_le_lex(yb, mb, db, y, 1, 1);
        }
    }
}

// idempotence / monotonicity follow from "greatest boundary not after"
pub proof fn lemma_trunc_month_idempotent_monotone(a: int, b: int)
    requires date_in_range(a), date_in_range(b), a <= b
    ensures
        trunc_month_spec(trunc_month_spec(a)) == trunc_month_spec(a),
        trunc_month_spec(a) <= trunc_month_spec(b),
{
    lemma_trunc_month_greatest(a);
    lemma_trunc_month_greatest(b);
    lemma_trunc_month_greatest(trunc_month_spec(a));
}
