// Proleptic Gregorian calendar theory, written from the property statements (C01).
// No reference to the implementation's tables or magic constants except in the lemmas
// that connect the implementation's arithmetic to this theory (lemma_stage*, lemma_j2d, lemma_mtab).

pub open spec fn leap(y: int) -> bool { y % 4 == 0 && (y % 100 != 0 || y % 400 == 0) }

pub open spec fn cum(m: int) -> int {
    if m == 1 { 0 } else if m == 2 { 31 } else if m == 3 { 59 } else if m == 4 { 90 }
    else if m == 5 { 120 } else if m == 6 { 151 } else if m == 7 { 181 } else if m == 8 { 212 }
    else if m == 9 { 243 } else if m == 10 { 273 } else if m == 11 { 304 } else { 334 }
}

pub open spec fn mdays(y: int, m: int) -> int {
    if m == 2 { if leap(y) { 29 } else { 28 } }
    else if m == 4 || m == 6 || m == 9 || m == 11 { 30 } else { 31 }
}

pub open spec fn ld(y: int) -> int { y / 4 - y / 100 + y / 400 }

pub open spec fn rata(y: int, m: int, d: int) -> int {
    365 * (y - 1) + ld(y - 1) + cum(m) + (if m > 2 && leap(y) { 1int } else { 0int }) + d - 1
}

pub open spec fn valid_ymd(y: int, m: int, d: int) -> bool { 1 <= m <= 12 && 1 <= d <= mdays(y, m) }

pub open spec fn mcum(m: int) -> int { if m >= 3 { cum(m) - 59 } else { cum(m) + 306 } }

pub open spec fn f4(n: int) -> int { 365 * n + n / 4 }

pub proof fn lemma_ld_shift(y: int) ensures ld(y + 4800) == ld(y) + 1164 {
    assert((y + 4800) / 4 == y / 4 + 1200);
    assert((y + 4800) / 100 == y / 100 + 48);
    assert((y + 4800) / 400 == y / 400 + 12);
}

pub proof fn lemma_ld_step(y: int)
    ensures ld(y) == ld(y - 1) + (if leap(y) {1int} else {0int})
{
    lemma_div_step(y, 4);
    lemma_div_step(y, 100);
    lemma_div_step(y, 400);
    assert(y % 400 == 0 ==> y % 100 == 0) by { if y % 400 == 0 { vstd::arithmetic::div_mod::lemma_mod_mod(y, 100, 4); } }
    assert(y % 100 == 0 ==> y % 4 == 0) by { if y % 100 == 0 { vstd::arithmetic::div_mod::lemma_mod_mod(y, 4, 25); } }
}

pub proof fn lemma_stage12(jj: int, q: int, rem: int, c: int, z: int)
    requires jj >= 0, q == jj / 146097, rem == jj - q * 146097, c == (rem * 4 + 3) / 146097, z == rem + c
    ensures 0 <= c <= 3, 0 <= rem < 146097,
        36525 * c <= z, c < 3 ==> z <= 36525 * (c + 1) - 2, z <= 146099,
{
}

pub proof fn lemma_stage3(jp: int, q4: int, r4: int, y: int, yj: int, doy0: int)
    requires jp >= 0, q4 == jp / 1461, r4 == jp - q4 * 1461, y == r4 * 4 / 1461, yj == 4 * q4 + y,
        doy0 == r4 - (if y == 0 { 0int } else { 365 * y + 1 })
    ensures 0 <= y <= 3, 0 <= doy0 < (if y == 0 { 366int } else { 365int }),
        jp == 365 * yj + (yj + 3) / 4 + doy0, yj >= 0, (y == 0) == (yj % 4 == 0)
{
}

pub proof fn lemma_stage4(r4: int, y: int, yj: int, doy0: int, t: int, ym: int)
    requires 0 <= y <= 3, yj >= 0, (y == 0) == (yj % 4 == 0),
        0 <= doy0 < (if y == 0 { 366int } else { 365int }),
        doy0 == r4 - (if y == 0 { 0int } else { 365 * y + 1 }),
        t == (if y != 0 { (r4 + 305) % 365 } else { (r4 + 306) % 366 }),
        ym == yj - (if doy0 < 59 + (if y == 0 {1int} else {0int}) { 1int } else { 0int }),
    ensures
        365 * yj + (yj + 3) / 4 + doy0 - 60 == f4(ym) + t,
        0 <= t <= 364 + (if (ym + 1) % 4 == 0 { 1int } else { 0int }),
        t <= 305 <==> ym == yj,
{
}

pub proof fn lemma_stage5(q: int, c: int, z: int, ym: int, t: int)
    requires q >= 0, 0 <= c <= 3, 36525 * c <= z, c < 3 ==> z <= 36525 * (c + 1) - 2, z <= 146099,
        ym >= -1,
        146100 * q + z == f4(ym) + t,
        0 <= t <= 364 + (if (ym + 1) % 4 == 0 { 1int } else { 0int }),
    ensures ym >= 0, ym / 400 == q, (ym / 100) % 4 == c, ym / 100 == 4 * q + c,
        t <= 364 + (if leap(ym + 1) { 1int } else { 0int }),
{
    let n = ym - 400 * q;
    assert(f4(ym) == 146100 * q + f4(n));
    assert(z == f4(n) + t);
    assert(0 <= n < 400);
    assert(n / 100 == c);
    assert(ym / 100 == 4 * q + n / 100);
}

pub proof fn lemma_stage6(t: int, jl: int, quad: int, day: int, month: int)
    requires 0 <= t <= 365, jl == t + 123, quad == jl * 2141 / 65536,
        day == jl - 7834 * quad / 256, month == (quad + 10) % 12 + 1
    ensures 1 <= month <= 12, t == mcum(month) + day - 1, 1 <= day <= 31,
        month != 2 ==> day <= mdays(1, month), month == 2 ==> day <= 29,
        t <= 305 <==> month >= 3,
        (month == 2 && day == 29) ==> t == 365,
{
    assert(4 <= quad <= 15);
    assert(quad == 4 ==> 7834 * quad / 256 == 122);
    assert(quad == 5 ==> 7834 * quad / 256 == 153);
    assert(quad == 6 ==> 7834 * quad / 256 == 183);
    assert(quad == 7 ==> 7834 * quad / 256 == 214);
    assert(quad == 8 ==> 7834 * quad / 256 == 244);
    assert(quad == 9 ==> 7834 * quad / 256 == 275);
    assert(quad == 10 ==> 7834 * quad / 256 == 306);
    assert(quad == 11 ==> 7834 * quad / 256 == 336);
    assert(quad == 12 ==> 7834 * quad / 256 == 367);
    assert(quad == 13 ==> 7834 * quad / 256 == 397);
    assert(quad == 14 ==> 7834 * quad / 256 == 428);
    assert(quad == 15 ==> 7834 * quad / 256 == 459);
}

pub proof fn lemma_j2d(jd: int) -> (r: (int, int, int))
    requires 0 <= jd <= 100000000
    ensures ({
        let jj = jd + 32044;
        let q = jj / 146097;
        let rem = jj - q * 146097;
        let c = (rem * 4 + 3) / 146097;
        let jp = jj + 60 + q * 3 + c;
        let q4 = jp / 1461;
        let r4 = jp - q4 * 1461;
        let y = r4 * 4 / 1461;
        let t = if y != 0 { (r4 + 305) % 365 } else { (r4 + 306) % 366 };
        let jl = t + 123;
        let year = y + q4 * 4 - 4800;
        let quad = jl * 2141 / 65536;
        let day = jl - 7834 * quad / 256;
        let month = (quad + 10) % 12 + 1;
        &&& r == (year, month, day)
        &&& valid_ymd(year, month, day)
        &&& rata(year, month, day) + 1721426 == jd
        &&& 0 <= q <= 1000 && 0 <= c <= 3 && 0 <= rem < 146097 && 0 <= q4 && 0 <= r4 < 1461 && 0 <= y <= 3 && 0 <= t <= 365 && 4 <= quad <= 15
    })
{
    let jj = jd + 32044;
    let q = jj / 146097;
    let rem = jj - q * 146097;
    let c = (rem * 4 + 3) / 146097;
    let z = rem + c;
    lemma_stage12(jj, q, rem, c, z);
    let jp = jj + 60 + q * 3 + c;
    let q4 = jp / 1461;
    let r4 = jp - q4 * 1461;
    let y = r4 * 4 / 1461;
    let yj = 4 * q4 + y;
    let doy0 = r4 - (if y == 0 { 0int } else { 365 * y + 1 });
    lemma_stage3(jp, q4, r4, y, yj, doy0);
    let t = if y != 0 { (r4 + 305) % 365 } else { (r4 + 306) % 366 };
    let ym = yj - (if doy0 < 59 + (if y == 0 {1int} else {0int}) { 1int } else { 0int });
    lemma_stage4(r4, y, yj, doy0, t, ym);
    assert(146100 * q + z == f4(ym) + t);
    lemma_stage5(q, c, z, ym, t);
    let jl = t + 123;
    let quad = jl * 2141 / 65536;
    let day = jl - 7834 * quad / 256;
    let month = (quad + 10) % 12 + 1;
    lemma_stage6(t, jl, quad, day, month);
    let year = yj - 4800;
    
    assert(jj == f4(ym) - ym / 100 + ym / 400 + t) by {
        assert(ym / 100 - ym / 400 == 3 * q + c);
    }
    lemma_ld_shift(year);
    lemma_ld_shift(year - 1);
    lemma_ld_step(year);
    assert(f4(ym) - ym / 100 + ym / 400 == 365 * ym + ld(ym));
    if month >= 3 {
        assert(ym == yj);
    } else {
        assert(ym == yj - 1);
    }
    assert(rata(year, month, day) + 1721426 == jd);
    assert(valid_ymd(year, month, day));
    (year, month, day)
}

pub proof fn lemma_cent(y: int)
    requires y >= 0
    ensures (y/100)/4 == y/400,
{
}

pub proof fn lemma_mtab(m: int)
    requires 4 <= m <= 15
    ensures 7834 * m / 256 == (if m <= 13 { cum(m - 1) + 63 } else { cum(m - 13) + 428 })
{
}

pub open spec fn dn(y: int, m: int, d: int) -> int { rata(y, m, d) - 719162 }

pub open spec fn date_ok(y: int, m: int, d: int) -> bool { 1 <= y <= 9999 && valid_ymd(y, m, d) }

pub proof fn lemma_rata_bounds(y: int, m: int, d: int)
    requires date_ok(y, m, d)
    ensures -719162 <= dn(y, m, d) <= 2932896
{
    lemma_ld_mono(y - 1);
}

pub proof fn lemma_bounds_forall()
    ensures forall|y: int, m: int, d: int| date_ok(y, m, d) ==> -719162 <= #[trigger] dn(y, m, d) <= 2932896
{
    assert forall|y: int, m: int, d: int| date_ok(y, m, d) implies -719162 <= #[trigger] dn(y, m, d) <= 2932896 by { lemma_rata_bounds(y, m, d); }
}

pub proof fn lemma_ld_mono(y: int)
    requires 0 <= y <= 9998
    ensures 0 <= ld(y) <= 2424, 
{
}

pub open spec fn ylen(y: int) -> int { if leap(y) { 366 } else { 365 } }

pub proof fn lemma_year_step(y: int)
    ensures rata(y + 1, 1, 1) == rata(y, 1, 1) + ylen(y), rata(y, 12, 31) + 1 == rata(y + 1, 1, 1)
{
    lemma_ld_step(y);
}

pub proof fn lemma_year_mono(a: int, b: int)
    requires a <= b
    ensures rata(b, 1, 1) >= rata(a, 1, 1) + 365 * (b - a)
    decreases b - a
{
    if a < b { lemma_year_mono(a, b - 1); lemma_year_step(b - 1); }
}

pub proof fn lemma_within_year(y: int, m: int, d: int)
    requires valid_ymd(y, m, d)
    ensures rata(y, 1, 1) <= rata(y, m, d) < rata(y, 1, 1) + ylen(y),
       m < 12 ==> rata(y, m, mdays(y, m)) + 1 == rata(y, m + 1, 1),
{
}

pub open spec fn lex_lt(y1: int, m1: int, d1: int, y2: int, m2: int, d2: int) -> bool {
    y1 < y2 || (y1 == y2 && (m1 < m2 || (m1 == m2 && d1 < d2)))
}

pub proof fn lemma_rata_strict_mono(y1: int, m1: int, d1: int, y2: int, m2: int, d2: int)
    requires valid_ymd(y1, m1, d1), valid_ymd(y2, m2, d2), lex_lt(y1, m1, d1, y2, m2, d2)
    ensures rata(y1, m1, d1) < rata(y2, m2, d2)
{
    lemma_within_year(y1, m1, d1);
    lemma_within_year(y2, m2, d2);
    if y1 < y2 {
        lemma_year_step(y1);
        lemma_year_mono(y1 + 1, y2);
    }
}

pub proof fn lemma_rata_injective(y1: int, m1: int, d1: int, y2: int, m2: int, d2: int)
    requires valid_ymd(y1, m1, d1), valid_ymd(y2, m2, d2), rata(y1, m1, d1) == rata(y2, m2, d2)
    ensures y1 == y2 && m1 == m2 && d1 == d2
{
    if lex_lt(y1, m1, d1, y2, m2, d2) { lemma_rata_strict_mono(y1, m1, d1, y2, m2, d2); }
    if lex_lt(y2, m2, d2, y1, m1, d1) { lemma_rata_strict_mono(y2, m2, d2, y1, m1, d1); }
}

pub open spec fn succ(y: int, m: int, d: int) -> (int, int, int) {
    if d < mdays(y, m) { (y, m, d + 1) } else if m < 12 { (y, m + 1, 1) } else { (y + 1, 1, 1) }
}

pub proof fn lemma_succ(y: int, m: int, d: int)
    requires valid_ymd(y, m, d)
    ensures ({ let s = succ(y, m, d); valid_ymd(s.0, s.1, s.2) && rata(s.0, s.1, s.2) == rata(y, m, d) + 1 })
{
    lemma_within_year(y, m, d);
    lemma_year_step(y);
}

pub open spec fn civil(n: int) -> (int, int, int) {
    choose|t: (int, int, int)| date_ok(t.0, t.1, t.2) && dn(t.0, t.1, t.2) == n
}

pub proof fn lemma_civil_unique(n: int)
    ensures forall|y: int, m: int, d: int| date_ok(y, m, d) && #[trigger] dn(y, m, d) == n ==> civil(n) == (y, m, d)
{
    assert forall|y: int, m: int, d: int| date_ok(y, m, d) && #[trigger] dn(y, m, d) == n implies civil(n) == (y, m, d) by {
        let w = (y, m, d);
        assert(date_ok(w.0, w.1, w.2) && dn(w.0, w.1, w.2) == n);
        let t = civil(n);
        assert(date_ok(t.0, t.1, t.2) && dn(t.0, t.1, t.2) == n);
        lemma_rata_injective(t.0, t.1, t.2, y, m, d);
    }
}

pub proof fn lemma_civil_props(n: int)
    requires -719162 <= n <= 2932896
    ensures ({ let t = civil(n); date_ok(t.0, t.1, t.2) && dn(t.0, t.1, t.2) == n })
{
    let r = lemma_j2d(n + 2440588);
    lemma_year_range(n + 2440588);
    assert(rata(r.0, r.1, r.2) + 1721426 == n + 2440588);
    let w = (r.0, r.1, r.2);
    assert(date_ok(w.0, w.1, w.2) && dn(w.0, w.1, w.2) == n);
}

pub proof fn lemma_year_range(jd: int)
    requires 1721426 <= jd <= 5373484
    ensures forall|y: int, m: int, d: int| valid_ymd(y, m, d) && #[trigger] rata(y, m, d) + 1721426 == jd ==> 1 <= y <= 9999
{
    assert forall|y: int, m: int, d: int| valid_ymd(y, m, d) && #[trigger] rata(y, m, d) + 1721426 == jd implies 1 <= y <= 9999 by {
        lemma_within_year(y, m, d);
        if y < 1 { lemma_year_mono(y, 0); lemma_year_step(0); }
        if y > 9999 { lemma_year_mono(10000, y); }
    }
}
