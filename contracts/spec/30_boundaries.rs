// Unit boundaries for truncation / rounding (C10, C11) and numeric ordering (C07, C17),
// written from the property statements.

pub open spec fn cmp_int(a: int, b: int) -> core::cmp::Ordering {
    if a < b { core::cmp::Ordering::Less } else if a == b { core::cmp::Ordering::Equal } else { core::cmp::Ordering::Greater }
}

// the Monday that starts ISO year y: the Monday on or before 4 January
pub open spec fn iso_start(y: int) -> int { dn(y, 1, 4) - (wd(dn(y, 1, 4)) + 5) % 7 }

// the ISO year a day number belongs to
pub open spec fn iso_year_of(n: int) -> int {
    let y = civil(n).0;
    if n < iso_start(y) { y - 1 } else if n >= iso_start(y + 1) { y + 1 } else { y }
}

pub proof fn lemma_iso_year_jan4(y: int)
    requires 1 <= y <= 9999
    ensures iso_year_of(dn(y, 1, 4)) == y, date_in_range(dn(y, 1, 4)), civil(dn(y, 1, 4)) == (y, 1int, 4int)
{
    lemma_rata_bounds(y, 1, 4);
    lemma_civil_unique(dn(y, 1, 4));
    assert(date_ok(y, 1, 4));
    lemma_year_step(y);
    lemma_wd(dn(y, 1, 4));
    lemma_wd(dn(y + 1, 1, 4));
}

// consecutive day numbers are consecutive Gregorian dates
pub proof fn lemma_civil_succ(n: int)
    requires date_in_range(n), date_in_range(n + 1)
    ensures ({ let (y, m, d) = civil(n); civil(n + 1) == succ(y, m, d) })
{
    lemma_civil_props(n);
    let (y, m, d) = civil(n);
    lemma_succ(y, m, d);
    let s = succ(y, m, d);
    assert(dn(s.0, s.1, s.2) == n + 1);
    assert(1 <= s.0 <= 9999) by {
        if s.0 == 10000 {
            lemma_range_ends();
            lemma_year_step(9999);
            assert(dn(10000, 1, 1) == 2932897);
        }
    }
    assert(date_ok(s.0, s.1, s.2));
    lemma_civil_unique(n + 1);
}
