// Unit boundaries for truncation / rounding (C10, C11) and numeric ordering (C07, C17),
// written from the property statements.

pub open spec fn cmp_int(a: int, b: int) -> core::cmp::Ordering {
    if a < b { core::cmp::Ordering::Less } else if a == b { core::cmp::Ordering::Equal } else { core::cmp::Ordering::Greater }
}

// the Monday that starts ISO year y: the Monday on or before 4 January
pub open spec fn iso_start(y: int) -> int { dn(y, 1, 4) - (wd(dn(y, 1, 4)) + 5) % 7 }

// the ISO year a day number belongs to
pub open spec fn iso_year_of(n: int) -> int {
    let y = civil(n).0;
    if n < iso_start(y) { y - 1 } else if n >= iso_start(y + 1) { y + 1 } else { y }
}

pub proof fn lemma_iso_year_jan4(y: int)
    requires 1 <= y <= 9999
    ensures iso_year_of(dn(y, 1, 4)) == y, date_in_range(dn(y, 1, 4)), civil(dn(y, 1, 4)) == (y, 1int, 4int)
{
    lemma_rata_bounds(y, 1, 4);
    lemma_civil_unique(dn(y, 1, 4));
    assert(date_ok(y, 1, 4));
    lemma_year_step(y);
    lemma_wd(dn(y, 1, 4));
    lemma_wd(dn(y + 1, 1, 4));
}
