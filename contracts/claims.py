"""Per-property claim texts for MANIFEST.json (tools/gen_manifest.py)."""
SETUP_CMD = 'python3 tools/setup.py'
NOTES = ('Exit codes of every check: 0 all obligations discharged; 1 + VIOLATION line: an obligation refuted; '
         '2: undecided (extraction anchor lost, tool failure, resource limit) - never an alarm. '
         'Known findings: known_findings.json. See DESIGN.md.')

V_NOTE = ('Trusted: Verus/Z3 and their model of Rust integer semantics; the closed list of extraction rewrites (DESIGN.md 2.1); '
          'assume_specification for is_negative/abs; derived PartialEq/PartialOrd assumed structural. '
          'Every external_body / assumed contract is listed in the evidence file with the obligation that discharges it.')


def V(text, technique, extra_note=''):
    return {'category': 'proof', 'technique': technique, 'text': text, 'note': V_NOTE + (' ' + extra_note if extra_note else '')}

CLAIMS = {
    'C01': V('Unbounded proof, all inputs: date2julian/julian2date/validators/constructors/extract are proved equal to an independently defined '
             'proleptic-Gregorian day count (rata) and its inverse (civil) for every i32/u32 argument; injectivity, monotonicity, successor and '
             'weekday-step are lemmas; the property sentences are laws over the contracts.',
             'Verus contracts on the real conversion functions against an independent Gregorian calendar theory',
             'Date::day_of_week and derived Ord are assumed in the Verus unit; their Kani discharge is listed in evidence when built.'),
    'C02': V('The documented range of each of the six types is a Verus type invariant: Verus demands it at every constructor expression of every '
             'extracted function and the safety precondition at every call of an unsafe *_unchecked constructor, for all inputs - '
             'including the f64 functions (mul_f64/div_f64, add_days/sub_days), whose IEEE operations are named wrappers with '
             'uninterpreted specs so that the range gate after them is proved for all inputs. Parse and text deserialisation return '
             'through the Verus-proved TryFrom<NaiveDateTime> (see evidence.coverage.not_reached).',
             'Verus type invariants on the six newtypes, checked at every constructor expression of the extracted code'),
    'C03': V('Verus generates and discharges an obligation for every + - * / % cast, index and unwrap in every extracted function '
             '(all integer operations of the six types, the integer side of the f64 functions), for all arguments; the text half is carried by '
             'CBMC\'s built-in overflow / bounds / pointer checks in every lexer, scanner, formatter and parser obligation, the parser field loop '
             'for pictures of any length (induction over the picture).',
             'Verus arithmetic-overflow / index / unwrap obligations on the extracted code + CBMC built-in checks in the text obligations'),
    'C07': V('Unbounded proof: Timestamp::new/extract/date/time and the Time constructors/extract are proved against floor division by one day '
             'and the mixed-radix bijection for every value; accessor agreement, bijection and order laws are proved over the contracts.',
             'Verus contracts + laws over contracts'),
    'C08': V('Unbounded proof: every add_*/sub_* of Date/Timestamp/IntervalYM/IntervalDT equals exact integer arithmetic, Ok exactly when the '
             'exact result is in range, with the error variant; inverse laws proved over the contracts. Timestamp::add_days/sub_days(f64): scaling, '
             'rounding, classification, conversion, exact addition and range check proved over named IEEE operations (assumed functional); '
             'what one IEEE operation returns is exercised by Kani on every double (range gate) and on offsets with exact products.',
             'Verus contracts (exact integer arithmetic, Ok iff in range) + inverse laws'),
    'C09': V('Unbounded proof for all dates x all intervals: add_interval_ym_internal implements floor-division month carry, fails exactly when '
             'the target month lacks the day or the year leaves 1..9999; wrappers on Date/Timestamp/OracleDate keep the time of day; '
             'last_day_of_month is exact.', 'Verus contracts against the civil-calendar spec'),
    'C10': V('Closed-form postconditions over the civil date for the 10 units Verus can ingest on Date and all 12 on Timestamp/OracleDate '
             '(wrappers proved against the Date contracts); ISO-year/ISO-week/Sunday-week on Date use function-pointer tables and are assumed '
             'in Verus pending their Kani discharge.', 'Verus closed-form postconditions per unit'),
    'C11': V('Postcondition per unit: result is trunc or next boundary chosen by the documented midpoint predicate, Err exactly when the chosen '
             'boundary is past the maximum date; one open known finding (D8) is isolated in an expected-to-fail law.',
             'Verus postconditions per unit + known-finding law'),
    'C12': V('Unbounded proof: Time +/- IntervalDT equals (t +/- i) mod 24h for all values; sub_time exact; conversions and mixed comparisons.',
             'Verus contracts (Euclidean modulo) + law'),
    'C13': V('Unbounded proof over every interval value and every u32 field tuple: constructors accept exactly the in-range tuples, '
             'extract/constructors mutually inverse, negation an involution, signed accessors agree.', 'Verus contracts + laws'),
    'C16': V('The whole-second invariant is the type invariant of oracle::Date; every constructor/conversion/interval op/trunc/round wrapper '
             'is proved to floor or preserve whole seconds; add_days/sub_days/oracle_add_days/oracle_sub_days (nearest second, ties away from zero, '
             'range error) and sub_date are proved over named IEEE operations.',
             'Verus type invariant (whole second, in range) + contracts'),
    'C17': V('Delegation contracts make Date/Timestamp/OracleDate agree by construction; agreement laws for every shared trunc/round unit, '
             'interval arithmetic, last_day_of_month and the 10 mixed comparison impls are proved over the contracts.',
             'Verus delegation contracts + agreement laws'),
}

def K(category, text, technique, note):
    return {'category': category, 'technique': technique, 'text': text, 'note': note}

K_NOTE = ('Trusted: Kani 0.68 / CBMC 6.11 and their bit-precise model of Rust integers and IEEE-754; every contract stub used by a harness '
          'is listed in the evidence file with the obligation that discharges it (Verus or Kani); chrono::Local::now, once_cell::Lazy and '
          'serde dispatch are assumed as stated there. Harnesses whose name ends in _bounded are bounded stand-ins (bound in evidence), run and '
          'required to pass but never counted as proved.')

CLAIMS.update({
    'C04': V('value -> field record is proved in Verus for all six types (From<T> for NaiveDateTime); record -> text is proved by Kani in two '
             'layers: every table helper against arithmetic for EVERY index it can receive, and Formatter::format over a symbolic token x every '
             'field record per type with the helpers replaced by markers (which helper, applicability error, sign once, year/fraction/blanks '
             'rendered directly). Concatenation over multi-token pictures is bounded (thorough tier: two tokens).',
             'Verus contracts (value->record) + Kani full-domain harnesses (record->text, modular with helper markers)', K_NOTE),
    'C05': V('record -> value (TryFrom<NaiveDateTime> x6, microsecond carry, exact errors) is proved in Verus for every field record; text -> record: '
             'the parser field loop is proved for pictures of ANY length by induction over the picture (Kani obligations init / step / finish per type: '
             'from any invariant-satisfying parser state, any token, any clock, the loop body and the code after the loop agree with a reference written '
             'from the property; leaf scanners replaced by their contracts, unread-text window 12 bytes); the scanner contracts themselves are bounded in '
             'the input length (8-12 bytes, which covers their maximum field widths).',
             'Verus contracts (record->value) + Kani loop-invariant obligations on the real parse_internal (scanners by contract) + scanner contracts (bounded)', K_NOTE),
    'C06': V('The value <-> field-record halves of the round trip are proved in Verus for every value of the six types (laws law_c06_*); the text half '
             '(format then parse of the same picture) is composed from: every token reads back exactly what it rendered and consumes all of it '
             '(Kani token_roundtrip_*, every value of every token), the renderer glue for any token (C04), the parser field loop for any picture '
             '(C05 induction obligations) and the lexer window obligation. No single obligation executes a whole picture end to end.',
             'Verus laws over contracts (value<->record inverse) + Kani per-token round trips and the C04/C05 loop obligations', K_NOTE),
    'C14': K('proof', 'Structure for all inputs (Verus): mul_f64/div_f64 of IntervalYM, IntervalDT and Time convert the full count, apply ONE IEEE '
             'multiply/divide by the operand, test infinity then NaN (division: zero divisor first), truncate by the saturating cast and range-gate, '
             'with the error variant of each class - stated over named IEEE operations whose results are assumed (hardware). What the operations '
             'return is exercised on the real functions for EVERY double (Kani: unit and zero operands make the product range over all doubles; '
             'zero dividend for every divisor). Symbolic x symbolic f64 products are beyond CBMC; those obligations are stretch-tier.',
             'Verus contracts over named IEEE operations + Kani full-domain harnesses on classification/truncation/range logic', K_NOTE),
    'C15': V('Compact form: for each of the six types, decoding EVERY raw i32/i64 is Ok exactly when in range (Oracle date: delegation to the Verus-proved '
             'checked constructor) and encoding writes exactly the raw count (Kani, full domain); value == raw count round trip is a Verus law. '
             'Text form: the six layouts are not executed end to end (Kani cannot compile once_cell::Lazy); the renderer glue for any token runs '
             'under this property, the parser loop obligations in the thorough tier, and the Verus contracts of TryFrom<NaiveDateTime> and of the '
             'checked constructors guarantee that any accepted text yields an in-range value.',
             'Kani full-domain harnesses on the real Serialize/Deserialize impls (compact form) + Verus laws', K_NOTE),
    'C18': K('proof', 'With chrono::Local::now replaced by a symbolic clock built through chrono\'s own constructors: Date/Timestamp/OracleDate::now and '
             'TryFrom<Time> report the clock for every clock in years 1..9999 and fail outside (complete). Defaulting of missing fields, year completion '
             'and clock independence are part of the parser loop obligations (init / step / finish from any parser state, symbolic clock): year and month '
             'are read from the clock exactly when the picture did not supply them, for pictures of any length.',
             'Kani with a stubbed symbolic clock; loop-invariant obligations on parse_internal against a reference', K_NOTE),
    'C19': K('model_checking', 'Bounded: FormatParser against a reference longest-match tokenizer written from the property, on EVERY byte string of length <= 4 '
             '(quick) / 5 (thorough), first token of every 8-byte window (next() is a function of the unread suffix, the longest token has 5 bytes), '
             'blank runs 1..=40 and 250..=262 (quick) / 1..=299 (thorough), the 36/37 token limit. No unbounded obligation exists for '
             'this property (the lexer is a loop over an input of arbitrary length).',
             'CBMC bounded model checking of the real lexer against a reference tokenizer (bounds stated)', K_NOTE),
})
for k in ('C01', 'C02', 'C03', 'C07', 'C08', 'C10', 'C11', 'C13', 'C16', 'C17'):
    CLAIMS[k]['note'] = CLAIMS[k]['note'] + ' ' + K_NOTE
NOT_APPLICABLE = {}

NOT_REACHED = {
    'C02': ['parse and text-form deserialisation end to end (every successful parse returns through the Verus-proved TryFrom<NaiveDateTime>, which yields in-range values only)',
            'what an IEEE operation returns (the range gate after it is proved for every result)'],
    'C03': ['unread text beyond the 12-byte window of the parser obligations, inputs longer than the stated byte bounds for the lexer and scanners',
            'allocation-failure paths (try_reserve) and core::fmt internals reached by interval day counts >= 1000',
            'LazyFormat / Display::to_string (std ToString panics on Err by design; the property speaks of the text sink)'],
    'C04': ['a whole multi-token picture end to end (Formatter::format carries no state between tokens: the per-token obligations compose)',
            'interval day counts >= 1000 (core::fmt)'],
    'C05': ['a whole picture end to end with the real scanners (composition of loop obligations and scanner contracts)',
            'every 8-/9-digit fraction (quick: four prefixes x every tail; thorough: all 10^7..10^9 values)'],
    'C06': ['format-then-parse executed end to end on any picture (composed from per-token round trips, renderer glue and parser loop obligations)'],
    'C08': ['what IEEE multiply / round return for a given day count (assumed; exercised by Kani on every double for the range gate and on offsets with exact products)'],
    'C14': ['what an IEEE multiply / divide / cast returns (assumed hardware; exercised by the Kani unit obligations); symbolic x symbolic f64 (stretch tier, does not finish)'],
    'C15': ['the text form end to end (once_cell::Lazy cannot be compiled by Kani); serde dispatch glue'],
    'C16': ['what the IEEE operations inside add_days / sub_date return (assumed; offsets with exact products in the thorough tier)'],
    'C18': ['chrono::Local::now itself'],
    'C19': ['pictures longer than 5 bytes (4 in the quick tier) except through the 8-byte first-token window and blank runs up to 299 (600 stretch); 36/37 token limit on one concrete picture family'],
}
