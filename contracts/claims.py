"""Per-property claim texts for MANIFEST.json (tools/gen_manifest.py)."""
SETUP_CMD = 'python3 tools/setup.py'
NOTES = ('Exit codes of every check: 0 all obligations discharged; 1 + VIOLATION line: an obligation refuted; '
         '2: undecided (extraction anchor lost, tool failure, resource limit) - never an alarm. '
         'Known findings: known_findings.json. See DESIGN.md.')

V_NOTE = ('Trusted: Verus/Z3 and their model of Rust integer semantics; the closed list of extraction rewrites (DESIGN.md 2.1); '
          'assume_specification for is_negative/abs; derived PartialEq/PartialOrd assumed structural. '
          'Every external_body / assumed contract is listed in the evidence file with the obligation that discharges it.')


def V(text, technique, extra_note=''):
    return {'category': 'proof', 'technique': technique, 'text': text, 'note': V_NOTE + (' ' + extra_note if extra_note else '')}

CLAIMS = {
    'C01': V('Unbounded proof, all inputs: date2julian/julian2date/validators/constructors/extract are proved equal to an independently defined '
             'proleptic-Gregorian day count (rata) and its inverse (civil) for every i32/u32 argument; injectivity, monotonicity, successor and '
             'weekday-step are lemmas; the property sentences are laws over the contracts.',
             'Verus contracts on the real conversion functions against an independent Gregorian calendar theory',
             'Date::day_of_week and derived Ord are assumed in the Verus unit; their Kani discharge is listed in evidence when built.'),
    'C02': V('The documented range of each of the six types is a Verus type invariant: Verus demands it at every constructor expression of every '
             'extracted function and the safety precondition at every call of an unsafe *_unchecked constructor, for all inputs. '
             'Float operations, parse and deserialisation are outside the Verus unit (see evidence.coverage.not_reached).',
             'Verus type invariants on the six newtypes, checked at every constructor expression of the extracted code'),
    'C03': V('Verus generates and discharges an obligation for every + - * / % cast, index and unwrap in every extracted function '
             '(all integer operations of the six types), for all arguments; the text/float half is not covered yet (evidence.coverage.not_reached).',
             'Verus arithmetic-overflow / index / unwrap obligations on the extracted integer core'),
    'C07': V('Unbounded proof: Timestamp::new/extract/date/time and the Time constructors/extract are proved against floor division by one day '
             'and the mixed-radix bijection for every value; accessor agreement, bijection and order laws are proved over the contracts.',
             'Verus contracts + laws over contracts'),
    'C08': V('Unbounded proof: every add_*/sub_* of Date/Timestamp/IntervalYM/IntervalDT equals exact integer arithmetic, Ok exactly when the '
             'exact result is in range, with the error variant; inverse laws proved over the contracts. Timestamp::add_days(f64) not covered yet.',
             'Verus contracts (exact integer arithmetic, Ok iff in range) + inverse laws'),
    'C09': V('Unbounded proof for all dates x all intervals: add_interval_ym_internal implements floor-division month carry, fails exactly when '
             'the target month lacks the day or the year leaves 1..9999; wrappers on Date/Timestamp/OracleDate keep the time of day; '
             'last_day_of_month is exact.', 'Verus contracts against the civil-calendar spec'),
    'C10': V('Closed-form postconditions over the civil date for the 10 units Verus can ingest on Date and all 12 on Timestamp/OracleDate '
             '(wrappers proved against the Date contracts); ISO-year/ISO-week/Sunday-week on Date use function-pointer tables and are assumed '
             'in Verus pending their Kani discharge.', 'Verus closed-form postconditions per unit'),
    'C11': V('Postcondition per unit: result is trunc or next boundary chosen by the documented midpoint predicate, Err exactly when the chosen '
             'boundary is past the maximum date; one open known finding (D8) is isolated in an expected-to-fail law.',
             'Verus postconditions per unit + known-finding law'),
    'C12': V('Unbounded proof: Time +/- IntervalDT equals (t +/- i) mod 24h for all values; sub_time exact; conversions and mixed comparisons.',
             'Verus contracts (Euclidean modulo) + law'),
    'C13': V('Unbounded proof over every interval value and every u32 field tuple: constructors accept exactly the in-range tuples, '
             'extract/constructors mutually inverse, negation an involution, signed accessors agree.', 'Verus contracts + laws'),
    'C16': V('The whole-second invariant is the type invariant of oracle::Date; every constructor/conversion/interval op/trunc/round wrapper '
             'is proved to floor or preserve whole seconds; float operations (add_days, sub_date) not covered yet.',
             'Verus type invariant (whole second, in range) + contracts'),
    'C17': V('Delegation contracts make Date/Timestamp/OracleDate agree by construction; agreement laws for every shared trunc/round unit, '
             'interval arithmetic, last_day_of_month and the 10 mixed comparison impls are proved over the contracts.',
             'Verus delegation contracts + agreement laws'),
}
PENDING = 'machinery for this property is not built yet in this revision (Kani harness family); see DESIGN.md'
NOT_APPLICABLE = {k: PENDING for k in ['C04', 'C05', 'C06', 'C14', 'C15', 'C18', 'C19']}
