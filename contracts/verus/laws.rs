// Property-level laws.  Each `law_*` is an exec function that only *calls* the functions under
// contract: Verus checks it against the callees' contracts, never their bodies, so each law is a
// lemma over the contracts (DESIGN.md §2).  A law that stops verifying means the contracts no
// longer carry the property.

// ---------------------------------------------------------------- C01
pub fn law_c01_days_ymd_roundtrip(n: i32)
{
    let r = Date::try_from_days(n);
    if let Ok(d) = r {
        let (y, m, dd) = d.extract();
        let back = Date::try_from_ymd(y, m, dd);
        assert(back.is_ok() && back.unwrap().v() == n);
        let dn2 = back.unwrap().days();
        assert(dn2 == n);
    } else {
        assert(!date_in_range(n as int));
    }
}

pub fn law_c01_ymd_days_roundtrip(y: i32, m: u32, d: u32)
{
    let r = Date::try_from_ymd(y, m, d);
    let v1 = Date::is_valid(y, m, d);
    let v2 = Date::validate_ymd(y, m, d);
    assert(r.is_ok() == v1 && v1 == v2.is_ok());
    if let Ok(date) = r {
        let t = date.extract();
        proof { lemma_civil_unique(date.v()); }
        assert(t.0 == y && t.1 == m && t.2 == d);
        let n = date.days();
        let r2 = Date::try_from_days(n);
        assert(r2.is_ok() && r2.unwrap().v() == date.v());
    }
}

// consecutive day numbers are consecutive Gregorian dates
pub fn law_c01_consecutive(d: Date)
{
    let (y, m, dd) = d.extract();
    let next = d.add_days(1);
    if let Ok(d2) = next {
        let (y2, m2, dd2) = d2.extract();
        proof { lemma_civil_succ(d.v()); }
        assert((y2 as int, m2 as int, dd2 as int) == succ(y as int, m as int, dd as int));
    } else {
        assert(d.v() == 2932896);
    }
}

// the weekday advances by one each day; day number 0 is a Thursday
pub fn law_c01_weekday(d: Date)
{
    let w = d.day_of_week();
    proof { lemma_wd(d.v()); }
    assert(1 <= weekday_num(w) <= 7);
    let next = d.add_days(1);
    if let Ok(d2) = next {
        let w2 = d2.day_of_week();
        assert(weekday_num(w2) == weekday_num(w) % 7 + 1);
    }
    let e = Date::try_from_days(0);
    assert(e.is_ok());
    let we = e.unwrap().day_of_week();
    assert(weekday_num(we) == 5);
}

// accepted dates order the same way as their triples
pub fn law_c01_order(y1: i32, m1: u32, d1: u32, y2: i32, m2: u32, d2: u32)
{
    let a = Date::try_from_ymd(y1, m1, d1);
    let b = Date::try_from_ymd(y2, m2, d2);
    if a.is_ok() && b.is_ok() {
        let x = a.unwrap().days();
        let z = b.unwrap().days();
        proof {
            if lex_lt(y1 as int, m1 as int, d1 as int, y2 as int, m2 as int, d2 as int) {
                lemma_rata_strict_mono(y1 as int, m1 as int, d1 as int, y2 as int, m2 as int, d2 as int);
            }
            if lex_lt(y2 as int, m2 as int, d2 as int, y1 as int, m1 as int, d1 as int) {
                lemma_rata_strict_mono(y2 as int, m2 as int, d2 as int, y1 as int, m1 as int, d1 as int);
            }
        }
        assert((x < z) == lex_lt(y1 as int, m1 as int, d1 as int, y2 as int, m2 as int, d2 as int));
        assert((x == z) == (y1 == y2 && m1 == m2 && d1 == d2));
    }
}

// ---------------------------------------------------------------- C06 / C15: value <-> field record
pub fn law_c06_date_fields_roundtrip(v: Date)
{
    let n = NaiveDateTime::from(v);
    proof { lemma_civil_props(v.v()); }
    let r = Date::try_from(n);
    assert(r.is_ok() && r.unwrap().v() == v.v());
}

pub fn law_c06_time_fields_roundtrip(v: Time)
{
    let n = NaiveDateTime::from(v);
    proof { lemma_tod(v.v()); }
    let r = Time::try_from(n);
    assert(r.is_ok() && r.unwrap().v() == v.v());
}

pub fn law_c06_timestamp_fields_roundtrip(v: Timestamp)
{
    let n = NaiveDateTime::from(v);
    proof {
        lemma_split_day(v.v());
        lemma_tod(v.v() % US_DAY());
        lemma_civil_props(v.v() / US_DAY());
    }
    let r = Timestamp::try_from(n);
    assert(r.is_ok() && r.unwrap().v() == v.v());
}

// (for a negative interval the formatter's record carries the magnitude plus a flag while the parser's
// record carries a signed year, so the record round trip is stated for non-negative values; the
// negative half is covered by negate() being an involution, C13)
pub fn law_c06_interval_ym_fields_roundtrip(v: IntervalYM)
{
    let n = NaiveDateTime::from(v);
    let m = v.months();
    if m >= 0 {
        let r = IntervalYM::try_from(n);
        assert(r.is_ok() && r.unwrap().v() == v.v());
    }
}

pub fn law_c06_interval_dt_fields_roundtrip(v: IntervalDT)
{
    let n = NaiveDateTime::from(v);
    let r = IntervalDT::try_from(n);
    assert(r.is_ok() && r.unwrap().v() == v.v());
}

pub fn law_c06_oracle_date_fields_roundtrip(v: OracleDate)
{
    let n = NaiveDateTime::from(v);
    proof {
        lemma_split_day(v.v());
        lemma_tod(v.v() % US_DAY());
        lemma_civil_props(v.v() / US_DAY());
        lemma_mod_units(v.v());
    }
    let u = v.usecs();
    let r = OracleDate::try_from(n);
    assert(r.is_ok() && r.unwrap().v() == v.v());
}

// binary form (C15): the raw count rebuilds the value
pub fn law_c15_raw_roundtrip(d: Date, t: Time, ts: Timestamp, ym: IntervalYM, dt: IntervalDT, od: OracleDate)
{
    let a = Date::try_from_days(d.days());
    assert(a.is_ok() && a.unwrap().v() == d.v());
    let b = Time::try_from_usecs(t.usecs());
    assert(b.is_ok() && b.unwrap().v() == t.v());
    let c = Timestamp::try_from_usecs(ts.usecs());
    assert(c.is_ok() && c.unwrap().v() == ts.v());
    let e = IntervalYM::try_from_months(ym.months());
    assert(e.is_ok() && e.unwrap().v() == ym.v());
    let f = IntervalDT::try_from_usecs(dt.usecs());
    assert(f.is_ok() && f.unwrap().v() == dt.v());
    let g = OracleDate::try_from_usecs(od.usecs());
    assert(g.is_ok() && g.unwrap().v() == od.v());
}

// ---------------------------------------------------------------- C07
pub fn law_c07_new_extract(d: Date, t: Time)
{
    let ts = Timestamp::new(d, t);
    let (d2, t2) = ts.extract();
    assert(d2.v() == d.v() && t2.v() == t.v());
    let d3 = ts.date();
    let t3 = ts.time();
    assert(d3.v() == d.v() && t3.v() == t.v());
    proof { Date::lemma_ext(d2, d); Time::lemma_ext(t2, t); }
    assert(d2 == d && t2 == t);
}

pub fn law_c07_extract_new(ts: Timestamp)
{
    let (d, t) = ts.extract();
    let back = Timestamp::new(d, t);
    assert(back.v() == ts.v());
    proof { Timestamp::lemma_ext(back, ts); }
    assert(back == ts);
}

pub fn law_c07_accessors(ts: Timestamp)
{
    let (d, t) = ts.extract();
    let (y, m, dd) = d.extract();
    let (h, mi, s, us) = t.extract();
    let ay = ts.year();
    let am = ts.month();
    let ad = ts.day();
    let ah = ts.hour();
    let ami = ts.minute();
    assert(ay == Some(y) && am == Some(m as i32) && ad == Some(dd as i32));
    assert(ah == Some(h as i32) && ami == Some(mi as i32));
    let dy = d.year();
    let dm = d.month();
    let ddd = d.day();
    assert(dy == Some(y) && dm == Some(m as i32) && ddd == Some(dd as i32));
    let th = t.hour();
    let tmi = t.minute();
    assert(th == Some(h as i32) && tmi == Some(mi as i32));
}

pub fn law_c07_time_tuple_bijection(h: u32, mi: u32, s: u32, us: u32)
{
    let r = Time::try_from_hms(h, mi, s, us);
    let v = Time::is_valid(h, mi, s, us);
    assert(r.is_ok() == v);
    assert(v == (h < 24 && mi < 60 && s < 60 && us < 1000000));
    if let Ok(t) = r {
        let (h2, mi2, s2, us2) = t.extract();
        proof { lemma_hms_unique(h as int, mi as int, s as int, us as int); }
        assert(h2 == h && mi2 == mi && s2 == s && us2 == us);
    }
}

pub fn law_c07_time_value_bijection(t: Time)
{
    let (h, mi, s, us) = t.extract();
    let r = Time::try_from_hms(h, mi, s, us);
    assert(r.is_ok() && r.unwrap().v() == t.v());
    let r2 = Time::try_from_usecs(t.usecs());
    assert(r2.is_ok() && r2.unwrap().v() == t.v());
}

// chronological order of (date, time) pairs is the order of the microsecond counts
pub fn law_c07_order(d1: Date, t1: Time, d2: Date, t2: Time)
{
    let a = Timestamp::new(d1, t1).usecs();
    let b = Timestamp::new(d2, t2).usecs();
    let x1 = d1.days(); let x2 = d2.days();
    let u1 = t1.usecs(); let u2 = t2.usecs();
    proof {
        assert((x1 < x2) ==> (x1 as int) * US_DAY() + US_DAY() <= (x2 as int) * US_DAY()) by (nonlinear_arith);
        assert((x2 < x1) ==> (x2 as int) * US_DAY() + US_DAY() <= (x1 as int) * US_DAY()) by (nonlinear_arith);
    }
    assert((a < b) == (x1 < x2 || (x1 == x2 && u1 < u2)));
    assert((a == b) == (x1 == x2 && u1 == u2));
}

// ---------------------------------------------------------------- C08
pub fn law_c08_date_days_inverse(d: Date, k: i32)
{
    let r = d.add_days(k);
    if let Ok(d2) = r {
        let back = d2.sub_days(k);
        assert(back.is_ok() && back.unwrap().v() == d.v());
        let diff = d2.sub_date(d);
        assert(diff == k);
        let diff2 = d.sub_date(d2);
        assert(diff2 == -diff);
    }
}

pub fn law_c08_timestamp_interval_inverse(ts: Timestamp, i: IntervalDT)
{
    let r = ts.add_interval_dt(i);
    if let Ok(ts2) = r {
        let back = ts2.sub_interval_dt(i);
        assert(back.is_ok() && back.unwrap().v() == ts.v());
        let diff = ts2.sub_timestamp(ts);
        assert(diff.v() == i.v());
        let diff2 = ts.sub_timestamp(ts2);
        assert(diff2.v() == -diff.v());
    }
}

pub fn law_c08_timestamp_time_inverse(ts: Timestamp, t: Time)
{
    let r = ts.add_time(t);
    if let Ok(ts2) = r {
        let back = ts2.sub_time(t);
        assert(back.is_ok() && back.unwrap().v() == ts.v());
    }
}

pub fn law_c08_interval_inverse(a: IntervalYM, b: IntervalYM, c: IntervalDT, e: IntervalDT)
{
    let r = a.add_interval_ym(b);
    if let Ok(s) = r {
        let back = s.sub_interval_ym(b);
        assert(back.is_ok() && back.unwrap().v() == a.v());
    }
    let r2 = c.add_interval_dt(e);
    if let Ok(s2) = r2 {
        let back2 = s2.sub_interval_dt(e);
        assert(back2.is_ok() && back2.unwrap().v() == c.v());
    }
}

// a date is the timestamp at its midnight: +interval / -interval / differences are mutually inverse
pub fn law_c08_date_interval_dt_inverse(d: Date, i: IntervalDT)
{
    let r = d.add_interval_dt(i);
    if let Ok(ts) = r {
        let back = ts.sub_interval_dt(i);
        assert(back.is_ok() && back.unwrap().v() == d.v() * US_DAY());
        let diff = ts.sub_date(d);
        assert(diff.v() == i.v());
        let diff2 = d.sub_timestamp(ts);
        assert(diff2.v() == -diff.v());
    }
    let s = d.sub_interval_dt(i);
    let s2 = d.add_interval_dt(-i);
    assert(s.is_ok() == s2.is_ok());
    if s.is_ok() { assert(s.unwrap().v() == s2.unwrap().v()); }
}

pub fn law_c08_date_time_inverse(d: Date, t: Time)
{
    let ts = d.add_time(t);
    let back = ts.sub_time(t);
    assert(back.is_ok() && back.unwrap().v() == d.v() * US_DAY());
    let diff = ts.sub_date(d);
    assert(diff.v() == t.v());
    let r = d.sub_time(t);
    if let Ok(ts2) = r {
        let fwd = ts2.add_time(t);
        assert(fwd.is_ok() && fwd.unwrap().v() == d.v() * US_DAY());
    }
}

// a-b = -(b-a), (a+b)-a = b for intervals of the same kind; both directions exist together
// because the documented ranges are symmetric
pub fn law_c08_interval_antisymmetry(a: IntervalYM, b: IntervalYM, c: IntervalDT, e: IntervalDT)
{
    let x = a.sub_interval_ym(b);
    let y = b.sub_interval_ym(a);
    assert(x.is_ok() == y.is_ok());
    if x.is_ok() { assert(x.unwrap().v() == -y.unwrap().v()); }
    let x2 = c.sub_interval_dt(e);
    let y2 = e.sub_interval_dt(c);
    assert(x2.is_ok() == y2.is_ok());
    if x2.is_ok() { assert(x2.unwrap().v() == -y2.unwrap().v()); }
    let s = a.add_interval_ym(b);
    if let Ok(sum) = s {
        let back = sum.sub_interval_ym(a);
        assert(back.is_ok() && back.unwrap().v() == b.v());
    }
    let s2 = c.add_interval_dt(e);
    if let Ok(sum2) = s2 {
        let back2 = sum2.sub_interval_dt(c);
        assert(back2.is_ok() && back2.unwrap().v() == e.v());
    }
}

pub fn law_c08_timestamp_difference(a: Timestamp, b: Timestamp)
{
    let x = a.sub_timestamp(b);
    let y = b.sub_timestamp(a);
    assert(x.v() == -y.v());
    let back = b.add_interval_dt(x);
    assert(back.is_ok() && back.unwrap().v() == a.v());
}

// ---------------------------------------------------------------- C09
pub fn law_c09_sub_is_add_negation(d: Date, ts: Timestamp, i: IntervalYM)
{
    let a = d.sub_interval_ym(i);
    let b = d.add_interval_ym(-i);
    assert(a.is_ok() == b.is_ok());
    if a.is_ok() { assert(a.unwrap().v() == b.unwrap().v()); }
    let c = ts.sub_interval_ym(i);
    let e = ts.add_interval_ym(-i);
    assert(c.is_ok() == e.is_ok());
    if c.is_ok() { assert(c.unwrap().v() == e.unwrap().v()); }
}

// when the month k months away has the day, going back k months returns the start: the day of month
// is kept in both directions, so nothing was clamped
pub fn law_c09_add_then_sub_returns(d: Date, i: IntervalYM)
{
    let r = d.add_interval_ym(i);
    proof { lemma_civil_props(d.v()); }
    let ghost c = civil(d.v());
    let ghost t: int = c.0 * 12 + (c.1 - 1) + i.v();
    if let Ok(ts) = r {
        proof {
            lemma_civil_of(t / 12, t % 12 + 1, c.2);
            assert(ts.v() == dn(t / 12, t % 12 + 1, c.2) * US_DAY());
            assert(ts.v() / US_DAY() == dn(t / 12, t % 12 + 1, c.2)) by (nonlinear_arith)
                requires ts.v() == dn(t / 12, t % 12 + 1, c.2) * US_DAY(), US_DAY() == 86_400_000_000int;
            assert(ts.v() % US_DAY() == 0) by (nonlinear_arith)
                requires ts.v() == dn(t / 12, t % 12 + 1, c.2) * US_DAY(), US_DAY() == 86_400_000_000int;
            assert((t / 12) * 12 + (t % 12 + 1 - 1) - i.v() == c.0 * 12 + (c.1 - 1));
            assert((c.0 * 12 + (c.1 - 1)) / 12 == c.0 && (c.0 * 12 + (c.1 - 1)) % 12 + 1 == c.1);
        }
        let back = ts.sub_interval_ym(i);
        assert(back.is_ok() && back.unwrap().v() == d.v() * US_DAY());
    }
}

// the last day of a month is a fixed point of last_day_of_month and lies in the value's own month
pub fn law_c09_last_day_idempotent(d: Date)
{
    let l = d.last_day_of_month();
    proof { lemma_civil_props(d.v()); }
    let ghost c = civil(d.v());
    proof { lemma_civil_of(c.0, c.1, mdays(c.0, c.1)); lemma_dn_le_lex(c.0, c.1, c.2, c.0, c.1, mdays(c.0, c.1)); }
    assert(civil(l.v()) == (c.0, c.1, mdays(c.0, c.1)));
    assert(l.v() >= d.v());
    let l2 = l.last_day_of_month();
    assert(l2.v() == l.v());
}

// ---------------------------------------------------------------- C10
// idempotence and monotonicity of the real truncation functions, from "greatest boundary not later"
pub fn law_c10_idempotent_monotone(d1: Date, d2: Date)
{
    proof {
        lemma_trunc_year_greatest(d1.v()); lemma_trunc_year_greatest(d2.v());
        lemma_trunc_month_greatest(d1.v()); lemma_trunc_month_greatest(d2.v());
        lemma_trunc_quarter_greatest(d1.v()); lemma_trunc_quarter_greatest(d2.v());
        lemma_trunc_century_greatest(d1.v()); lemma_trunc_century_greatest(d2.v());
    }
    let y1 = d1.trunc_year(); let y2 = d2.trunc_year();
    let m1 = d1.trunc_month(); let m2 = d2.trunc_month();
    let q1 = d1.trunc_quarter(); let q2 = d2.trunc_quarter();
    let c1 = d1.trunc_century(); let c2 = d2.trunc_century();
    assert(y1.is_ok() && m1.is_ok() && q1.is_ok() && c1.is_ok());
    let y1v = y1.unwrap(); let m1v = m1.unwrap(); let q1v = q1.unwrap(); let c1v = c1.unwrap();
    assert(y1v.v() <= d1.v() && m1v.v() <= d1.v() && q1v.v() <= d1.v() && c1v.v() <= d1.v());
    // coarser units never land after finer ones
    assert(c1v.v() <= y1v.v() && y1v.v() <= q1v.v() && q1v.v() <= m1v.v());
    proof {
        lemma_trunc_year_greatest(y1v.v()); lemma_trunc_month_greatest(m1v.v());
        lemma_trunc_quarter_greatest(q1v.v()); lemma_trunc_century_greatest(c1v.v());
    }
    let yy = y1v.trunc_year(); let mm = m1v.trunc_month(); let qq = q1v.trunc_quarter(); let cc = c1v.trunc_century();
    assert(yy.is_ok() && yy.unwrap().v() == y1v.v());
    assert(mm.is_ok() && mm.unwrap().v() == m1v.v());
    assert(qq.is_ok() && qq.unwrap().v() == q1v.v());
    assert(cc.is_ok() && cc.unwrap().v() == c1v.v());
    assert(d1.v() <= d2.v() ==> y1v.v() <= y2.unwrap().v());
    assert(d1.v() <= d2.v() ==> m1v.v() <= m2.unwrap().v());
    assert(d1.v() <= d2.v() ==> q1v.v() <= q2.unwrap().v());
    assert(d1.v() <= d2.v() ==> c1v.v() <= c2.unwrap().v());
}

// ---------------------------------------------------------------- C11
// the documented midpoint: from year 51 of the century on, the later boundary is chosen
pub fn law_c11_round_century_midpoint(d: Date)
{
    let (y, m, dd) = d.extract();
    let r = d.round_century();
    let t = d.trunc_century();
    proof { lemma_civil_props(d.v()); }
    let ghost base: int = (y as int - 1) / 100 * 100 + 1;
    assert(t.is_ok() && t.unwrap().v() == dn(base, 1, 1));
    assert(y % 100 != 0 && y as int - base >= 50 && base + 100 <= 9999 ==> r.is_ok() && r.unwrap().v() == dn(base + 100, 1, 1));
    assert(y % 100 != 0 && y as int - base >= 50 && base + 100 > 9999 ==> r.is_err());
    assert(y as int - base < 50 ==> r.is_ok() && r.unwrap().v() == t.unwrap().v());
}

// EXPECTED TO FAIL while known finding D8 is open (known_findings.json): year 100 of a century is past
// the midpoint, so the strict rule sends it to the next century; the code returns the truncation.
pub fn law_c11_kf_d8_century_end_year(d: Date)
{
    let (y, m, dd) = d.extract();
    let r = d.round_century();
    proof { lemma_civil_props(d.v()); }
    if y % 100 == 0 && y < 9900 {
        assert(r.is_ok() && r.unwrap().v() == dn(y as int + 1, 1, 1));
    }
}

// ---------------------------------------------------------------- C12
pub fn law_c12_time_interval(t: Time, i: IntervalDT)
{
    let a = t.add_interval_dt(i);
    let back = a.sub_interval_dt(i);
    proof {
        vstd::arithmetic::div_mod::lemma_sub_mod_noop(t.v() + i.v(), i.v(), US_DAY());
        vstd::arithmetic::div_mod::lemma_mod_twice(t.v() + i.v(), US_DAY());
        vstd::arithmetic::div_mod::lemma_small_mod(t.v() as nat, US_DAY() as nat);
    }
    assert(back.v() == t.v());
}

// the difference of two times of day is antisymmetric and adding it back returns the minuend
pub fn law_c12_sub_time(t1: Time, t2: Time)
{
    let a = t1.sub_time(t2);
    let b = t2.sub_time(t1);
    assert(a.v() == t1.v() - t2.v());
    assert(a.v() == -b.v());
    let c = t2.add_interval_dt(a);
    proof { vstd::arithmetic::div_mod::lemma_small_mod(t1.v() as nat, US_DAY() as nat); }
    assert(c.v() == t1.v());
}

// whole days never move a time of day; the interval's own time of day is what is added
pub fn law_c12_whole_days_and_conversion(t: Time, i: IntervalDT)
{
    let ti = Time::from(i);
    assert(ti.v() == abs(i.v()) % US_DAY());
    let a = t.add_interval_dt(i);
    assert(0 <= a.v() < US_DAY());
    assert(a.v() == (t.v() + i.v()) % US_DAY());
    let s = t.sub_interval_dt(i);
    assert(s.v() == (t.v() - i.v()) % US_DAY());
}

// ---------------------------------------------------------------- C13
pub fn law_c13_ym_fields_roundtrip(v: IntervalYM)
{
    let (sign, y, m) = v.extract();
    let r = IntervalYM::try_from_ym(y, m);
    assert(r.is_ok());
    let mag = r.unwrap();
    assert(mag.v() == abs(v.v()));
    let n = v.negate();
    let nn = n.negate();
    assert(nn.v() == v.v());
    let neg2 = -v;
    assert(neg2.v() == n.v());
}

pub fn law_c13_ym_ctor_extract(y: u32, m: u32)
{
    let r = IntervalYM::try_from_ym(y, m);
    let ok = IntervalYM::is_valid_ym(y, m);
    assert(r.is_ok() == ok);
    if let Ok(v) = r {
        let (sign, y2, m2) = v.extract();
        assert(sign == Sign::Positive && y2 == y && m2 == m);
    }
}

pub fn law_c13_dt_fields_roundtrip(v: IntervalDT)
{
    let (sign, d, h, mi, s, us) = v.extract();
    let r = IntervalDT::try_from_dhms(d, h, mi, s, us);
    assert(r.is_ok());
    assert(r.unwrap().v() == abs(v.v()));
    let n = v.negate();
    let nn = n.negate();
    assert(nn.v() == v.v());
    let neg2 = -v;
    assert(neg2.v() == n.v());
}

// the documented ranges are symmetric: a raw count is accepted exactly when its negation is, the
// accepted value carries the count unchanged, and negating maps accepted values onto accepted values
pub fn law_c13_raw_range_symmetric(m: i32, u: i64)
{
    if m > i32::MIN {
        let a = IntervalYM::try_from_months(m);
        let b = IntervalYM::try_from_months(-m);
        assert(a.is_ok() == b.is_ok());
        if let Ok(x) = a {
            let back = x.months();
            assert(back == m);
            let n = -x;
            assert(b.is_ok() && b.unwrap().v() == n.v());
            let again = IntervalYM::try_from_months(n.months());
            assert(again.is_ok());
        }
    }
    if u > i64::MIN {
        let c = IntervalDT::try_from_usecs(u);
        let e = IntervalDT::try_from_usecs(-u);
        assert(c.is_ok() == e.is_ok());
        if let Ok(y) = c {
            let back = y.usecs();
            assert(back == u);
            let n = -y;
            assert(e.is_ok() && e.unwrap().v() == n.v());
            let again = IntervalDT::try_from_usecs(n.usecs());
            assert(again.is_ok());
        }
    }
}

pub fn law_c13_dt_ctor_extract(d: u32, h: u32, mi: u32, s: u32, us: u32)
{
    let r = IntervalDT::try_from_dhms(d, h, mi, s, us);
    let ok = IntervalDT::is_valid(d, h, mi, s, us);
    assert(r.is_ok() == ok);
    if let Ok(v) = r {
        let (sign, d2, h2, mi2, s2, us2) = v.extract();
        proof {
            lemma_dhms_unique(d as int, h as int, mi as int, s as int, us as int);
            lemma_dhms_unique(d2 as int, h2 as int, mi2 as int, s2 as int, us2 as int);
            lemma_hms_unique(h as int, mi as int, s as int, us as int);
            lemma_hms_unique(h2 as int, mi2 as int, s2 as int, us2 as int);
        }
        assert(sign == Sign::Positive && d2 == d && h2 == h && mi2 == mi && s2 == s && us2 == us);
    }
}

// ---------------------------------------------------------------- C16 / C17
pub fn law_c16_from_timestamp_floor(ts: Timestamp)
{
    let od = OracleDate::from(ts);
    let u = od.usecs();
    proof { lemma_floor_units(ts.v()); }
    assert(u % 1000000 == 0);
    assert(u <= ts.v() && ts.v() - u < 1000000);
    let back = Timestamp::from(od);
    assert(back.v() == u);
}

pub fn law_c17_date_is_midnight_timestamp(d: Date, i: IntervalDT, t: Time)
{
    let ts = Timestamp::from(d);
    assert(ts.v() == d.v() * US_DAY());
    // interval arithmetic through either type
    let a = d.add_interval_dt(i);
    let b = ts.add_interval_dt(i);
    assert(a.is_ok() == b.is_ok());
    if a.is_ok() { assert(a.unwrap().v() == b.unwrap().v()); }
    let c = d.sub_time(t);
    let e = ts.sub_time(t);
    assert(c.is_ok() == e.is_ok());
    if c.is_ok() { assert(c.unwrap().v() == e.unwrap().v()); }
    // comparisons
    let eq1 = d == ts;
    let eq2 = ts == d;
    assert(eq1 && eq2);
}

pub fn law_c17_trunc_agree(d: Date)
{
    let ts = Timestamp::from(d);
    proof { lemma_day_multiple(d.v()); }
    let a = d.trunc_month();
    let b = ts.trunc_month();
    assert(a.is_ok() && b.is_ok() && b.unwrap().v() == a.unwrap().v() * US_DAY());
    let a = d.trunc_century();
    let b = ts.trunc_century();
    assert(a.is_ok() && b.is_ok() && b.unwrap().v() == a.unwrap().v() * US_DAY());
    let a = d.trunc_year();
    let b = ts.trunc_year();
    assert(a.is_ok() && b.is_ok() && b.unwrap().v() == a.unwrap().v() * US_DAY());
    let a = d.trunc_quarter();
    let b = ts.trunc_quarter();
    assert(a.is_ok() && b.is_ok() && b.unwrap().v() == a.unwrap().v() * US_DAY());
    let a = d.trunc_week();
    let b = ts.trunc_week();
    assert(a.is_ok() && b.is_ok() && b.unwrap().v() == a.unwrap().v() * US_DAY());
    let a = d.trunc_iso_week();
    let b = ts.trunc_iso_week();
    assert(a.is_ok() && b.is_ok() && b.unwrap().v() == a.unwrap().v() * US_DAY());
    let a = d.trunc_iso_year();
    let b = ts.trunc_iso_year();
    assert(a.is_ok() && b.is_ok() && b.unwrap().v() == a.unwrap().v() * US_DAY());
    let a = d.trunc_month_start_week();
    let b = ts.trunc_month_start_week();
    assert(a.is_ok() && b.is_ok() && b.unwrap().v() == a.unwrap().v() * US_DAY());
    let a = d.trunc_sunday_start_week();
    let b = ts.trunc_sunday_start_week();
    assert(a.is_ok() == b.is_ok());
    if a.is_ok() { assert(b.unwrap().v() == a.unwrap().v() * US_DAY()); }
    let a = d.last_day_of_month();
    let b = ts.last_day_of_month();
    assert(b.v() == a.v() * US_DAY());
}

pub fn law_c17_round_month_agree(d: Date)
{
    let ts = Timestamp::from(d);
    proof { lemma_day_multiple(d.v()); lemma_day_shift(d.v(), US_DAY() / 2); }
    let a = d.round_month();
    let b = ts.round_month();
    assert(a.is_ok() == b.is_ok());
    if a.is_ok() { assert(b.unwrap().v() == a.unwrap().v() * US_DAY()); }
}

pub fn law_c17_round_year_agree(d: Date)
{
    let ts = Timestamp::from(d);
    proof { lemma_day_multiple(d.v()); lemma_day_shift(d.v(), US_DAY() / 2); }
    let a = d.round_year();
    let b = ts.round_year();
    assert(a.is_ok() == b.is_ok());
    if a.is_ok() { assert(b.unwrap().v() == a.unwrap().v() * US_DAY()); }
}

pub fn law_c17_round_quarter_agree(d: Date)
{
    let ts = Timestamp::from(d);
    proof { lemma_day_multiple(d.v()); lemma_day_shift(d.v(), US_DAY() / 2); }
    let a = d.round_quarter();
    let b = ts.round_quarter();
    assert(a.is_ok() == b.is_ok());
    if a.is_ok() { assert(b.unwrap().v() == a.unwrap().v() * US_DAY()); }
}

pub fn law_c17_round_century_agree(d: Date)
{
    let ts = Timestamp::from(d);
    proof { lemma_day_multiple(d.v()); lemma_day_shift(d.v(), US_DAY() / 2); }
    let a = d.round_century();
    let b = ts.round_century();
    assert(a.is_ok() == b.is_ok());
    if a.is_ok() { assert(b.unwrap().v() == a.unwrap().v() * US_DAY()); }
}

pub fn law_c17_round_iso_year_agree(d: Date)
{
    let ts = Timestamp::from(d);
    proof { lemma_day_multiple(d.v()); lemma_day_shift(d.v(), US_DAY() / 2); }
    let a = d.round_iso_year();
    let b = ts.round_iso_year();
    assert(ts.v() / US_DAY() == d.v());
    proof { lemma_civil_props(d.v()); }
    assert(a.is_ok() == b.is_ok());
    if a.is_ok() { assert(b.unwrap().v() == a.unwrap().v() * US_DAY()); }
}

pub fn law_c17_round_week_agree(d: Date)
{
    let ts = Timestamp::from(d);
    proof { lemma_day_multiple(d.v()); lemma_day_shift(d.v(), US_DAY() / 2); }
    let a = d.round_week();
    let b = ts.round_week();
    assert(a.is_ok() == b.is_ok());
    if a.is_ok() { assert(b.unwrap().v() == a.unwrap().v() * US_DAY()); }
}

pub fn law_c17_round_iso_week_agree(d: Date)
{
    let ts = Timestamp::from(d);
    proof { lemma_day_multiple(d.v()); lemma_day_shift(d.v(), US_DAY() / 2); }
    let a = d.round_iso_week();
    let b = ts.round_iso_week();
    assert(a.is_ok() == b.is_ok());
    if a.is_ok() { assert(b.unwrap().v() == a.unwrap().v() * US_DAY()); }
}

pub fn law_c17_round_month_start_week_agree(d: Date)
{
    let ts = Timestamp::from(d);
    proof { lemma_day_multiple(d.v()); lemma_day_shift(d.v(), US_DAY() / 2); }
    let a = d.round_month_start_week();
    let b = ts.round_month_start_week();
    assert(a.is_ok() == b.is_ok());
    if a.is_ok() { assert(b.unwrap().v() == a.unwrap().v() * US_DAY()); }
}

pub fn law_c17_round_sunday_start_week_agree(d: Date)
{
    let ts = Timestamp::from(d);
    proof { lemma_day_multiple(d.v()); lemma_day_shift(d.v(), US_DAY() / 2); }
    let a = d.round_sunday_start_week();
    let b = ts.round_sunday_start_week();
    assert(a.is_ok() == b.is_ok());
    if a.is_ok() { assert(b.unwrap().v() == a.unwrap().v() * US_DAY()); }
}

pub fn law_c17_round_day_agree(d: Date)
{
    let ts = Timestamp::from(d);
    proof { lemma_day_multiple(d.v()); lemma_day_shift(d.v(), US_DAY() / 2); }
    let a = d.round_day();
    let b = ts.round_day();
    assert(a.is_ok() && b.is_ok() && b.unwrap().v() == a.unwrap().v() * US_DAY());
}

// an Oracle-style date is the timestamp of its whole second: every shared operation agrees
pub fn law_c17_oracle_is_timestamp(od: OracleDate, i: IntervalYM, k: IntervalDT)
{
    let ts = Timestamp::from(od);
    assert(ts.v() == od.v());
    let a = od.trunc_month();
    let b = ts.trunc_month();
    assert(a.is_ok() == b.is_ok());
    if a.is_ok() { assert(a.unwrap().v() == b.unwrap().v()); }
    let a = od.round_minute();
    let b = ts.round_minute();
    assert(a.is_ok() == b.is_ok());
    if a.is_ok() { assert(a.unwrap().v() == b.unwrap().v()); }
    let a = od.round_hour();
    let b = ts.round_hour();
    assert(a.is_ok() == b.is_ok());
    if a.is_ok() { assert(a.unwrap().v() == b.unwrap().v()); }
    let a = od.round_day();
    let b = ts.round_day();
    assert(a.is_ok() == b.is_ok());
    if a.is_ok() { assert(a.unwrap().v() == b.unwrap().v()); }
    let a = od.add_interval_ym(i);
    let b = ts.add_interval_ym(i);
    assert(a.is_ok() == b.is_ok());
    if a.is_ok() { assert(a.unwrap().v() == b.unwrap().v()); }
    let a = od.last_day_of_month();
    let b = ts.last_day_of_month();
    assert(a.v() == b.v());
    let e1 = od == ts;
    let e2 = ts == od;
    assert(e1 && e2);
}
