//! Native counterexample finder / replayer.  Executes the real crate (path dependency on the tree
//! under check) against independent executable oracles.  It is never counted as an obligation and
//! never turns a failed proof into a pass: it only supplies failing inputs for obligations the
//! verifier already failed to discharge, and re-executes recorded inputs.
//!
//! usage: replayer search <oracle> [seed]      -> one JSON object on stdout
//!        replayer list
use sqldatetime::{Date, DateTime, IntervalDT, IntervalYM, OracleDate, Round, Sign, Time, Timestamp, Trunc};
use std::panic::{catch_unwind, AssertUnwindSafe};

// ---------------------------------------------------------------- independent calendar (Hinnant's algorithms)
fn days_from_civil(y: i64, m: i64, d: i64) -> i64 {
    let y = if m <= 2 { y - 1 } else { y };
    let era = if y >= 0 { y } else { y - 399 } / 400;
    let yoe = y - era * 400;
    let doy = (153 * (if m > 2 { m - 3 } else { m + 9 }) + 2) / 5 + d - 1;
    let doe = yoe * 365 + yoe / 4 - yoe / 100 + doy;
    era * 146097 + doe - 719468
}
fn civil_from_days(z: i64) -> (i64, i64, i64) {
    let z = z + 719468;
    let era = if z >= 0 { z } else { z - 146096 } / 146097;
    let doe = z - era * 146097;
    let yoe = (doe - doe / 1460 + doe / 36524 - doe / 146096) / 365;
    let y = yoe + era * 400;
    let doy = doe - (365 * yoe + yoe / 4 - yoe / 100);
    let mp = (5 * doy + 2) / 153;
    let d = doy - (153 * mp + 2) / 5 + 1;
    let m = if mp < 10 { mp + 3 } else { mp - 9 };
    (if m <= 2 { y + 1 } else { y }, m, d)
}
fn leap(y: i64) -> bool { y % 4 == 0 && (y % 100 != 0 || y % 400 == 0) }
fn mdays(y: i64, m: i64) -> i64 { match m { 2 => if leap(y) { 29 } else { 28 }, 4 | 6 | 9 | 11 => 30, _ => 31 } }
fn date_ok(y: i64, m: i64, d: i64) -> bool { (1..=9999).contains(&y) && (1..=12).contains(&m) && d >= 1 && d <= mdays(y, m) }
const DMIN: i64 = -719162;
const DMAX: i64 = 2932896;
const DAY: i64 = 86_400_000_000;
const TSMIN: i64 = DMIN * DAY;
const TSMAX: i64 = (DMAX + 1) * DAY - 1;
fn wd(n: i64) -> i64 { (n + 4).rem_euclid(7) + 1 }
fn iso_start(y: i64) -> i64 { let j = days_from_civil(y, 1, 4); j - (wd(j) + 5) % 7 }
fn iso_year_of(n: i64) -> i64 { let y = civil_from_days(n).0; if n < iso_start(y) { y - 1 } else if n >= iso_start(y + 1) { y + 1 } else { y } }


// ------------------------------------------------------------------------------------------------
// independent picture semantics for the native parse / format searches (written from C04 / C05 / C18)
// ------------------------------------------------------------------------------------------------
#[derive(Clone, Copy, PartialEq, Debug)]
enum Tok { Yyyy, Yy, Mm, Mon, Month, Dd, Ddd, D, Dy, Day, Hh24, Hh, Mi, Ss, Ff3, Ff6, Am, PmDot, W, Ww }
const TOKS: [(Tok, &str); 20] = [(Tok::Yyyy, "YYYY"), (Tok::Yy, "YY"), (Tok::Mm, "MM"), (Tok::Mon, "MON"), (Tok::Month, "MONTH"), (Tok::Dd, "DD"), (Tok::Ddd, "DDD"),
    (Tok::D, "D"), (Tok::Dy, "DY"), (Tok::Day, "DAY"), (Tok::Hh24, "HH24"), (Tok::Hh, "HH"), (Tok::Mi, "MI"), (Tok::Ss, "SS"), (Tok::Ff3, "FF3"), (Tok::Ff6, "FF6"),
    (Tok::Am, "AM"), (Tok::PmDot, "P.M."), (Tok::W, "W"), (Tok::Ww, "WW")];
const MONTHS: [&str; 12] = ["JANUARY", "FEBRUARY", "MARCH", "APRIL", "MAY", "JUNE", "JULY", "AUGUST", "SEPTEMBER", "OCTOBER", "NOVEMBER", "DECEMBER"];
const DAYS: [&str; 7] = ["SUNDAY", "MONDAY", "TUESDAY", "WEDNESDAY", "THURSDAY", "FRIDAY", "SATURDAY"];
fn tok_is_date(t: Tok) -> bool { matches!(t, Tok::Yyyy | Tok::Yy | Tok::Mm | Tok::Mon | Tok::Month | Tok::Dd | Tok::Ddd | Tok::D | Tok::Dy | Tok::Day | Tok::W | Tok::Ww) }
fn doy_of(y: i64, m: i64, d: i64) -> i64 { days_from_civil(y, m, d) - days_from_civil(y, 1, 1) + 1 }

/// the text one token stands for, for the value (y, m, d, usec-of-day)
fn render_tok(t: Tok, y: i64, m: i64, d: i64, tod: i64) -> String {
    let (h, mi, sc, us) = (tod / 3_600_000_000, tod / 60_000_000 % 60, tod / 1_000_000 % 60, tod % 1_000_000);
    let w = wd(days_from_civil(y, m, d));
    match t {
        Tok::Yyyy => format!("{:04}", y), Tok::Yy => format!("{:02}", y % 100), Tok::Mm => format!("{:02}", m),
        Tok::Mon => MONTHS[m as usize - 1][..3].to_string(), Tok::Month => MONTHS[m as usize - 1].to_string(),
        Tok::Dd => format!("{:02}", d), Tok::Ddd => format!("{:03}", doy_of(y, m, d)), Tok::D => format!("{}", w),
        Tok::Dy => DAYS[w as usize - 1][..3].to_string(), Tok::Day => DAYS[w as usize - 1].to_string(),
        Tok::Hh24 => format!("{:02}", h), Tok::Hh => format!("{:02}", if h % 12 == 0 { 12 } else { h % 12 }), Tok::Mi => format!("{:02}", mi), Tok::Ss => format!("{:02}", sc),
        Tok::Ff3 => format!("{:03}", us / 1000), Tok::Ff6 => format!("{:06}", us),
        Tok::Am => (if h < 12 { "AM" } else { "PM" }).to_string(), Tok::PmDot => (if h < 12 { "A.M." } else { "P.M." }).to_string(),
        Tok::W => format!("{}", (d - 1) / 7 + 1), Tok::Ww => format!("{:02}", (doy_of(y, m, d) - 1) / 7 + 1),
    }
}

/// what a blank-separated text denotes under a blank-separated picture (None = must be rejected); (has_date, has_time) = type flags
fn ref_parse(toks: &[Tok], segs: &[String], has_date: bool, has_time: bool, now_y: i64, now_m: i64) -> Option<(i64, i64, i64, i64)> {
    let (mut y, mut m, mut d): (Option<i64>, Option<i64>, Option<i64>) = (None, None, None);
    let (mut h24, mut h12, mut mi, mut sc, mut us): (Option<i64>, Option<i64>, Option<i64>, Option<i64>, Option<i64>) = (None, None, None, None, None);
    let (mut pm, mut doy, mut dow): (Option<bool>, Option<i64>, Option<i64>) = (None, None, None);
    let num = |s: &str, max: usize| -> Option<i64> { if s.is_empty() || s.len() > max || !s.bytes().all(|b| b.is_ascii_digit()) { None } else { s.parse().ok() } };
    for (t, s) in toks.iter().zip(segs.iter()) {
        if tok_is_date(*t) != true && !has_time { return None; }
        if tok_is_date(*t) && !has_date { return None; }
        match t {
            Tok::Yyyy => { if y.is_some() { return None; } y = Some(num(s, 4)?); }
            Tok::Yy => { if y.is_some() { return None; } let v = num(s, 4)?; y = Some(if s.len() > 2 { v } else { now_y - now_y % 100 + v }); }
            Tok::Mm => { if m.is_some() { return None; } m = Some(num(s, 2)?); }
            Tok::Mon | Tok::Month => { if m.is_some() { return None; }
                let up = s.to_ascii_uppercase();
                let k = MONTHS.iter().position(|n| *n == up || n[..3] == up)?; m = Some(k as i64 + 1); }
            Tok::Dd => { if d.is_some() { return None; } d = Some(num(s, 2)?); }
            Tok::Ddd => { if doy.is_some() { return None; } doy = Some(num(s, 3)?); }
            Tok::D => { if dow.is_some() { return None; } let v = num(s, 1)?; if !(1..=7).contains(&v) { return None; } dow = Some(v); }
            Tok::Dy | Tok::Day => { if dow.is_some() { return None; }
                let up = s.to_ascii_uppercase();
                let k = DAYS.iter().position(|n| if *t == Tok::Dy { n[..3] == up } else { *n == up })?; dow = Some(k as i64 + 1); }
            Tok::Hh24 => { if h24.is_some() || h12.is_some() || pm.is_some() { return None; } h24 = Some(num(s, 2)?); }
            Tok::Hh => { if h24.is_some() || h12.is_some() { return None; } let v = num(s, 2)?; if !(1..=12).contains(&v) { return None; } h12 = Some(v); }
            Tok::Mi => { if mi.is_some() { return None; } mi = Some(num(s, 2)?); }
            Tok::Ss => { if sc.is_some() { return None; } sc = Some(num(s, 2)?); }
            Tok::Ff3 => { if us.is_some() { return None; } let v = num(s, 3)?; us = Some(v * 10i64.pow(6 - s.len() as u32)); }
            Tok::Ff6 => { if us.is_some() { return None; } let v = num(s, 6)?; us = Some(v * 10i64.pow(6 - s.len() as u32)); }
            Tok::Am | Tok::PmDot => { if pm.is_some() || h24.is_some() { return None; }
                let up = s.to_ascii_uppercase();
                let (a, p) = if *t == Tok::Am { ("AM", "PM") } else { ("A.M.", "P.M.") };
                pm = Some(if up == p { true } else if up == a { false } else { return None; }); }
            Tok::W | Tok::Ww => return None,     // output-only codes
        }
    }
    let hour = match (h24, h12, pm) { (Some(h), _, _) => h, (None, Some(h), Some(p)) => if p { if h == 12 { 12 } else { h + 12 } } else { if h == 12 { 0 } else { h } },
        (None, Some(h), None) => h, (None, None, Some(p)) => if p { 12 } else { 0 }, (None, None, None) => 0 };
    let (mi, sc, us) = (mi.unwrap_or(0), sc.unwrap_or(0), us.unwrap_or(0));
    if has_time && (hour > 23 || mi > 59 || sc > 59) { return None; }
    let tod = hour * 3_600_000_000 + mi * 60_000_000 + sc * 1_000_000 + us;
    if !has_date { return Some((0, 0, 0, tod)); }
    let yy = y.unwrap_or(now_y);
    let mut mm = m.unwrap_or(now_m);
    let mut dd = d.unwrap_or(1);
    if let Some(n) = doy {
        if !(1..=9999).contains(&yy) { return None; }
        if n < 1 || n > if leap(yy) { 366 } else { 365 } { return None; }
        let (_, m2, d2) = civil_from_days(days_from_civil(yy, 1, 1) + n - 1);
        if m.is_some() && m2 != mm { return None; }
        if d.is_some() && d2 != dd { return None; }
        mm = m2; dd = d2;
    }
    if !date_ok(yy, mm, dd) { return None; }
    if let Some(w) = dow { if wd(days_from_civil(yy, mm, dd)) != w { return None; } }
    Some((yy, mm, dd, tod))
}

fn show<T: std::fmt::Display>(r: Result<T, sqldatetime::Error>) -> String {
    use std::fmt::Write;
    match r { Err(_) => "Err(..)".to_string(), Ok(v) => { let mut s = String::new(); if write!(s, "{}", v).is_ok() { format!("Ok({:?})", s) } else { "Err(..)".to_string() } } }
}

struct Found { input: String, expected: String, actual: String }
struct Outcome { found: Option<Found>, evaluations: u64, exhaustive: bool, domain: &'static str }

fn date(n: i64) -> Date { Date::try_from_days(n as i32).unwrap() }
fn in_d(n: i64) -> bool { (DMIN..=DMAX).contains(&n) }
fn fmt_date_res(r: &Result<Date, sqldatetime::Error>) -> String { match r { Ok(d) => format!("Ok(days={})", d.days()), Err(e) => format!("Err({:?})", e) } }
fn fmt_ts_res(r: &Result<Timestamp, sqldatetime::Error>) -> String { match r { Ok(d) => format!("Ok(usecs={})", d.usecs()), Err(e) => format!("Err({:?})", e) } }

macro_rules! fail { ($input:expr, $exp:expr, $act:expr) => { return Some(Found { input: $input, expected: $exp, actual: $act }) }; }

// expected results of the twelve truncation units on a day number (None = error)
fn trunc_expected(unit: &str, n: i64) -> Option<i64> {
    let (y, m, d) = civil_from_days(n);
    let r = match unit {
        "century" => days_from_civil((y - 1) / 100 * 100 + 1, 1, 1),
        "year" => days_from_civil(y, 1, 1),
        "iso_year" => iso_start(iso_year_of(n)),
        "quarter" => days_from_civil(y, (m - 1) / 3 * 3 + 1, 1),
        "month" => days_from_civil(y, m, 1),
        "week" => n - (n - days_from_civil(y, 1, 1)) % 7,
        "iso_week" => n - (wd(n) + 5) % 7,
        "month_start_week" => days_from_civil(y, m, (d - 1) / 7 * 7 + 1),
        "sunday_start_week" => n - (wd(n) - 1),
        _ => n,
    };
    if in_d(r) { Some(r) } else { None }
}
fn round_week_like(n: i64, off: i64) -> i64 { if off >= 4 { n - off + 7 } else { n - off } }
fn round_expected(unit: &str, n: i64) -> Option<i64> {
    let (y, m, d) = civil_from_days(n);
    let r = match unit {
        "century" => { let base = (y - 1) / 100 * 100 + 1; let t = if y - base >= 50 && y % 100 != 0 { base + 100 } else { base }; if t > 9999 { return None } days_from_civil(t, 1, 1) }
        "year" => { let t = if m >= 7 { y + 1 } else { y }; if t > 9999 { return None } days_from_civil(t, 1, 1) }
        "iso_year" => { if m >= 7 { if y == 9999 { return None } iso_start(y + 1) } else { iso_start(iso_year_of(n)) } }
        "quarter" => { let q0 = (m - 1) / 3 * 3 + 1; let up = m > q0 + 1 || (m == q0 + 1 && d >= 16); let tm = if up { q0 + 3 } else { q0 };
                       let (ty, tm) = if tm > 12 { (y + 1, 1) } else { (y, tm) }; if ty > 9999 { return None } days_from_civil(ty, tm, 1) }
        "month" => { let (ty, tm) = if d >= 16 { if m == 12 { (y + 1, 1) } else { (y, m + 1) } } else { (y, m) }; if ty > 9999 { return None } days_from_civil(ty, tm, 1) }
        "week" => round_week_like(n, (n - days_from_civil(y, 1, 1)) % 7),
        "iso_week" => round_week_like(n, (wd(n) + 5) % 7),
        "month_start_week" => round_week_like(n, (d - 1) % 7),
        "sunday_start_week" => round_week_like(n, wd(n) - 1),
        _ => n,
    };
    if in_d(r) { Some(r) } else { None }
}
fn call_trunc(unit: &str, d: Date) -> Result<Date, sqldatetime::Error> {
    match unit { "century" => d.trunc_century(), "year" => d.trunc_year(), "iso_year" => d.trunc_iso_year(), "quarter" => d.trunc_quarter(), "month" => d.trunc_month(),
        "week" => d.trunc_week(), "iso_week" => d.trunc_iso_week(), "month_start_week" => d.trunc_month_start_week(), "sunday_start_week" => d.trunc_sunday_start_week(),
        "day" => d.trunc_day(), "hour" => d.trunc_hour(), _ => d.trunc_minute() }
}
fn call_round(unit: &str, d: Date) -> Result<Date, sqldatetime::Error> {
    match unit { "century" => d.round_century(), "year" => d.round_year(), "iso_year" => d.round_iso_year(), "quarter" => d.round_quarter(), "month" => d.round_month(),
        "week" => d.round_week(), "iso_week" => d.round_iso_week(), "month_start_week" => d.round_month_start_week(), "sunday_start_week" => d.round_sunday_start_week(),
        "day" => d.round_day(), "hour" => d.round_hour(), _ => d.round_minute() }
}
fn call_trunc_ts(unit: &str, d: Timestamp) -> Result<Timestamp, sqldatetime::Error> {
    match unit { "century" => d.trunc_century(), "year" => d.trunc_year(), "iso_year" => d.trunc_iso_year(), "quarter" => d.trunc_quarter(), "month" => d.trunc_month(),
        "week" => d.trunc_week(), "iso_week" => d.trunc_iso_week(), "month_start_week" => d.trunc_month_start_week(), "sunday_start_week" => d.trunc_sunday_start_week(),
        "day" => d.trunc_day(), "hour" => d.trunc_hour(), _ => d.trunc_minute() }
}
fn call_round_ts(unit: &str, d: Timestamp) -> Result<Timestamp, sqldatetime::Error> {
    match unit { "century" => d.round_century(), "year" => d.round_year(), "iso_year" => d.round_iso_year(), "quarter" => d.round_quarter(), "month" => d.round_month(),
        "week" => d.round_week(), "iso_week" => d.round_iso_week(), "month_start_week" => d.round_month_start_week(), "sunday_start_week" => d.round_sunday_start_week(),
        "day" => d.round_day(), "hour" => d.round_hour(), _ => d.round_minute() }
}
const UNITS: [&str; 12] = ["century", "year", "iso_year", "quarter", "month", "week", "iso_week", "month_start_week", "sunday_start_week", "day", "hour", "minute"];
const CRIT_TIMES: [i64; 12] = [0, 1, 999_999, 1_000_000, 29_999_999, 30_000_000, 1_799_999_999, 1_800_000_000, 43_199_999_999, 43_200_000_000, 86_340_000_000, 86_399_999_999];

fn search(oracle: &str, seed: u64) -> Outcome {
    let mut n_eval: u64 = 0;
    let mut exhaustive = true;
    let mut domain = "";
    let found = (|| -> Option<Found> {
        match oracle {
            // ------------------------------------------------ C01
            "date_extract" => {
                domain = "every day number in range";
                for n in DMIN..=DMAX {
                    n_eval += 1;
                    let (y, m, d) = date(n).extract();
                    let e = civil_from_days(n);
                    if (y as i64, m as i64, d as i64) != e { fail!(format!("Date::try_from_days({}).extract()", n), format!("{:?}", e), format!("{:?}", (y, m, d))); }
                }
                None
            }
            "date_from_ymd" => {
                domain = "every (year -1..=10001, month 0..=14, day 0..=33) + extreme years";
                let mut years: Vec<i32> = (-1..=10001).collect();
                years.extend_from_slice(&[i32::MIN, i32::MIN + 1, -4712, -4713, 100000, i32::MAX]);
                for &y in &years { for m in 0u32..=14 { for d in 0u32..=33 {
                    n_eval += 1;
                    let r = Date::try_from_ymd(y, m, d);
                    let ok = date_ok(y as i64, m as i64, d as i64);
                    let exp = if ok { format!("Ok(days={})", days_from_civil(y as i64, m as i64, d as i64)) }
                        else if y < 1 || y > 9999 { "Err(DateOutOfRange)".to_string() } else if m < 1 || m > 12 { "Err(InvalidMonth)".to_string() }
                        else if d < 1 || d > 31 { "Err(InvalidDay)".to_string() } else { "Err(InvalidDate)".to_string() };
                    let act = fmt_date_res(&r);
                    if act != exp { fail!(format!("Date::try_from_ymd({}, {}, {})", y, m, d), exp, act); }
                    if Date::is_valid(y, m, d) != ok { fail!(format!("Date::is_valid({}, {}, {})", y, m, d), format!("{}", ok), format!("{}", !ok)); }
                }}}
                None
            }
            "date_from_days" => {
                domain = "every i32 within 2000 of the range ends and of zero, and the i32 extremes";
                let mut v: Vec<i64> = vec![i32::MIN as i64, i32::MAX as i64];
                for c in [DMIN, DMAX, 0] { for k in -2000..=2000 { v.push(c + k); } }
                for n in v {
                    n_eval += 1;
                    let r = Date::try_from_days(n as i32);
                    let exp = if in_d(n) { format!("Ok(days={})", n) } else { "Err(DateOutOfRange)".to_string() };
                    if fmt_date_res(&r) != exp { fail!(format!("Date::try_from_days({})", n), exp, fmt_date_res(&r)); }
                }
                None
            }
            "date_add_sub_days" => {
                domain = "boundary pool x boundary pool";
                exhaustive = false;
                let pool: Vec<i64> = vec![DMIN, DMIN + 1, -1, 0, 1, 59, 60, DMAX - 1, DMAX];
                let ks: Vec<i64> = vec![i32::MIN as i64, -(DMAX - DMIN) - 1, -(DMAX - DMIN), -366, -1, 0, 1, 365, DMAX - DMIN, DMAX - DMIN + 1, i32::MAX as i64];
                for &n in &pool { for &k in &ks {
                    n_eval += 2;
                    let r = date(n).add_days(k as i32);
                    let exp = if in_d(n + k) { format!("Ok(days={})", n + k) } else { "Err(DateOutOfRange)".to_string() };
                    if fmt_date_res(&r) != exp { fail!(format!("Date(days={}).add_days({})", n, k), exp, fmt_date_res(&r)); }
                    let r = date(n).sub_days(k as i32);
                    let exp = if in_d(n - k) { format!("Ok(days={})", n - k) } else { "Err(DateOutOfRange)".to_string() };
                    if fmt_date_res(&r) != exp { fail!(format!("Date(days={}).sub_days({})", n, k), exp, fmt_date_res(&r)); }
                }}
                None
            }
            "date_day_of_week" => {
                domain = "every day number in range";
                for n in DMIN..=DMAX { n_eval += 1; let w = date(n).day_of_week() as i64; if w != wd(n) { fail!(format!("Date(days={}).day_of_week()", n), format!("{}", wd(n)), format!("{}", w)); } }
                None
            }
            // ------------------------------------------------ C09
            "date_add_months" | "ts_add_months" => {
                domain = "every date x month offsets {-40..=40 step varied, +-48/96/1200/4800, range limits}; every 29 February x every offset";
                exhaustive = false;
                let offs: Vec<i64> = vec![-2136000000, -119988, -4800, -1200, -96, -48, -40, -25, -24, -13, -12, -11, -2, -1, 0, 1, 2, 11, 12, 13, 23, 24, 25, 40, 48, 96, 1200, 4800, 119988, 2136000000];
                for n in DMIN..=DMAX {
                    let (y, m, d) = civil_from_days(n);
                    for &k in &offs {
                        if (n + k) % 3 != 0 && k.abs() > 2 && k.abs() < 100000 && !(m == 2 && d == 29) { continue; }
                        n_eval += 1;
                        let t = y * 12 + (m - 1) + k;
                        let (ny, nm) = (t.div_euclid(12), t.rem_euclid(12) + 1);
                        let iv = IntervalYM::try_from_months(k as i32).unwrap();
                        if oracle == "date_add_months" {
                            let r = date(n).add_interval_ym(iv);
                            let exp = if date_ok(ny, nm, d) { format!("Ok(usecs={})", days_from_civil(ny, nm, d) * DAY) } else { "Err".to_string() };
                            let act = match &r { Ok(v) => format!("Ok(usecs={})", v.usecs()), Err(_) => "Err".to_string() };
                            if act != exp { fail!(format!("Date({}-{}-{}).add_interval_ym({} months)", y, m, d, k), exp, act); }
                            let r2 = date(n).sub_interval_ym(-iv);
                            let act2 = match &r2 { Ok(v) => format!("Ok(usecs={})", v.usecs()), Err(_) => "Err".to_string() };
                            if act2 != exp { fail!(format!("Date({}-{}-{}).sub_interval_ym({} months)", y, m, d, -k), exp, act2); }
                        } else {
                            let tod = CRIT_TIMES[(n.rem_euclid(12)) as usize];
                            let ts = Timestamp::try_from_usecs(n * DAY + tod).unwrap();
                            let r = ts.add_interval_ym(iv);
                            let exp = if date_ok(ny, nm, d) { format!("Ok(usecs={})", days_from_civil(ny, nm, d) * DAY + tod) } else { "Err".to_string() };
                            let act = match &r { Ok(v) => format!("Ok(usecs={})", v.usecs()), Err(_) => "Err".to_string() };
                            if act != exp { fail!(format!("Timestamp(usecs={}).add_interval_ym({} months)", n * DAY + tod, k), exp, act); }
                        }
                    }
                }
                None
            }
            "last_day_of_month" => {
                domain = "every date (Date, and Timestamp at a critical time of day)";
                for n in DMIN..=DMAX {
                    n_eval += 2;
                    let (y, m, _) = civil_from_days(n);
                    let e = days_from_civil(y, m, mdays(y, m));
                    let a = date(n).last_day_of_month().days() as i64;
                    if a != e { fail!(format!("Date(days={}).last_day_of_month()", n), format!("days={}", e), format!("days={}", a)); }
                    let tod = CRIT_TIMES[(n.rem_euclid(12)) as usize];
                    let a = Timestamp::try_from_usecs(n * DAY + tod).unwrap().last_day_of_month().usecs();
                    if a != e * DAY + tod { fail!(format!("Timestamp(usecs={}).last_day_of_month()", n * DAY + tod), format!("usecs={}", e * DAY + tod), format!("usecs={}", a)); }
                }
                None
            }
            // ------------------------------------------------ C10 / C11 on Date
            "date_trunc" | "date_round" => {
                domain = "every date x 12 units";
                for n in DMIN..=DMAX { for u in UNITS.iter() {
                    n_eval += 1;
                    let (r, e) = if oracle == "date_trunc" { (call_trunc(u, date(n)), trunc_expected(u, n)) } else { (call_round(u, date(n)), round_expected(u, n)) };
                    let exp = match e { Some(v) => format!("Ok(days={})", v), None => "Err(DateOutOfRange)".to_string() };
                    if fmt_date_res(&r) != exp { let c = civil_from_days(n); fail!(format!("Date({}-{:02}-{:02}).{}_{}()", c.0, c.1, c.2, if oracle == "date_trunc" { "trunc" } else { "round" }, u), exp, fmt_date_res(&r)); }
                }}
                None
            }
            "ts_trunc" | "ts_round" | "od_trunc" | "od_round" => {
                domain = "every date x 12 critical times of day x 12 units";
                exhaustive = false;
                let od = oracle.starts_with("od");
                let is_trunc = oracle.ends_with("trunc");
                for n in DMIN..=DMAX { for (ti, &tod) in CRIT_TIMES.iter().enumerate() {
                    if (n + ti as i64) % 4 != 0 && n > DMIN + 800 && n < DMAX - 800 && (n < -400 || n > 400) { continue; }
                    let tod = if od { tod / 1_000_000 * 1_000_000 } else { tod };
                    let v = n * DAY + tod;
                    for u in UNITS.iter() {
                        n_eval += 1;
                        let e: Option<i64> = if is_trunc {
                            match *u { "hour" => Some(v.div_euclid(3_600_000_000) * 3_600_000_000), "minute" => Some(v.div_euclid(60_000_000) * 60_000_000),
                                "day" => Some(n * DAY), _ => trunc_expected(u, n).map(|x| x * DAY) }
                        } else {
                            match *u { "hour" => Some((v + 1_800_000_000).div_euclid(3_600_000_000) * 3_600_000_000), "minute" => Some((v + 30_000_000).div_euclid(60_000_000) * 60_000_000),
                                "day" => Some((v + DAY / 2).div_euclid(DAY) * DAY),
                                "week" | "iso_week" | "month_start_week" | "sunday_start_week" => { let n2 = (v + DAY / 2).div_euclid(DAY); if in_d(n2) { round_expected(u, n2).map(|x| x * DAY) } else { None } }
                                _ => round_expected(u, n).map(|x| x * DAY) }
                        };
                        let e = e.filter(|x| (TSMIN..=TSMAX).contains(x));
                        let exp = match e { Some(x) => format!("Ok(usecs={})", x), None => "Err(DateOutOfRange)".to_string() };
                        let act = if od {
                            let d = OracleDate::try_from_usecs(v).unwrap();
                            let r = if is_trunc { match *u { "century" => d.trunc_century(), "year" => d.trunc_year(), "iso_year" => d.trunc_iso_year(), "quarter" => d.trunc_quarter(), "month" => d.trunc_month(),
                                "week" => d.trunc_week(), "iso_week" => d.trunc_iso_week(), "month_start_week" => d.trunc_month_start_week(), "sunday_start_week" => d.trunc_sunday_start_week(),
                                "day" => d.trunc_day(), "hour" => d.trunc_hour(), _ => d.trunc_minute() } }
                            else { match *u { "century" => d.round_century(), "year" => d.round_year(), "iso_year" => d.round_iso_year(), "quarter" => d.round_quarter(), "month" => d.round_month(),
                                "week" => d.round_week(), "iso_week" => d.round_iso_week(), "month_start_week" => d.round_month_start_week(), "sunday_start_week" => d.round_sunday_start_week(),
                                "day" => d.round_day(), "hour" => d.round_hour(), _ => d.round_minute() } };
                            match r { Ok(x) => format!("Ok(usecs={})", x.usecs()), Err(e) => format!("Err({:?})", e) }
                        } else {
                            let t = Timestamp::try_from_usecs(v).unwrap();
                            fmt_ts_res(&if is_trunc { call_trunc_ts(u, t) } else { call_round_ts(u, t) })
                        };
                        if act != exp { fail!(format!("{}(usecs={}).{}_{}()", if od { "OracleDate" } else { "Timestamp" }, v, if is_trunc { "trunc" } else { "round" }, u), exp, act); }
                    }
                }}
                None
            }
            // ------------------------------------------------ C07
            "ts_split" => {
                domain = "every date x 12 critical times of day";
                exhaustive = false;
                for n in DMIN..=DMAX { for &tod in CRIT_TIMES.iter() {
                    n_eval += 1;
                    let d = date(n); let t = Time::try_from_usecs(tod).unwrap();
                    let ts = Timestamp::new(d, t);
                    if ts.usecs() != n * DAY + tod { fail!(format!("Timestamp::new(days={}, usecs={})", n, tod), format!("{}", n * DAY + tod), format!("{}", ts.usecs())); }
                    let (d2, t2) = ts.extract();
                    if d2 != d || t2 != t { fail!(format!("Timestamp(usecs={}).extract()", ts.usecs()), format!("(days={}, usecs={})", n, tod), format!("(days={}, usecs={})", d2.days(), t2.usecs())); }
                    let c = civil_from_days(n);
                    let acc = (ts.year(), ts.month(), ts.day(), ts.hour(), ts.minute(), ts.date().map(|x| x.days() as i64));
                    let exp = (Some(c.0 as i32), Some(c.1 as i32), Some(c.2 as i32), Some((tod / 3_600_000_000) as i32), Some((tod / 60_000_000 % 60) as i32), Some(n));
                    if acc != exp { fail!(format!("Timestamp(usecs={}) accessors (year, month, day, hour, minute, date)", ts.usecs()), format!("{:?}", exp), format!("{:?}", acc)); }
                }}
                None
            }
            "and_hms" => {
                domain = "Date::and_hms validity grid (h 0/23/24, mi 0/59/60, s 0/59/60, us 0/999999/1000000/u32::MAX) on the first, epoch and last date";
                exhaustive = false;
                for n in [DMIN, -1, 0, DMAX] { for h in [0u32, 23, 24, u32::MAX] { for mi in [0u32, 59, 60] { for sc in [0u32, 59, 60] { for us in [0u32, 999_999, 1_000_000, u32::MAX] {
                    n_eval += 1;
                    let ok = h < 24 && mi < 60 && sc < 60 && us < 1_000_000;
                    let exp = if ok { format!("Ok(usecs={})", n * DAY + h as i64 * 3_600_000_000 + mi as i64 * 60_000_000 + sc as i64 * 1_000_000 + us as i64) } else { "Err(..)".to_string() };
                    let act = match date(n).and_hms(h, mi, sc, us) { Ok(v) => format!("Ok(usecs={})", v.usecs()), Err(_) => "Err(..)".to_string() };
                    if act != exp { fail!(format!("Date(days={}).and_hms({}, {}, {}, {})", n, h, mi, sc, us), exp, act); }
                }}}}}
                for v in [TSMIN, TSMIN + 1, -DAY - 1, -DAY, -DAY + 1, -1, 0, 1, DAY - 1, TSMAX] { for off in [0i64, 73_060_000_000 - DAY] {
                    let u = v + off; if u < TSMIN || u > TSMAX { continue; }
                    n_eval += 1;
                    let t = Time::from(Timestamp::try_from_usecs(u).unwrap());
                    if t.usecs() != u.rem_euclid(DAY) { fail!(format!("Time::from(Timestamp(usecs={}))", u), format!("{}", u.rem_euclid(DAY)), format!("{}", t.usecs())); }
                }}
                None
            }
            // ------------------------------------------------ C08: exact linear arithmetic at the range ends
            "linear_arith" => {
                domain = "timestamps / dates / intervals at the range ends, around zero and mid-range: every add/sub method against 128-bit integer arithmetic";
                exhaustive = false;
                let tss: Vec<i64> = vec![TSMIN, TSMIN + 1, TSMIN + DAY - 1, TSMIN + DAY, -DAY, -1, 0, 1, DAY, TSMAX - DAY, TSMAX - DAY + 1, TSMAX - 1, TSMAX];
                let tods: Vec<i64> = vec![0, 1, 43_200_000_000, DAY - 1];
                let ts_res = |e: i128| if e >= TSMIN as i128 && e <= TSMAX as i128 { format!("Ok(usecs={})", e) } else { "Err(..)".to_string() };
                let show_ts = |r: Result<Timestamp, sqldatetime::Error>| match r { Ok(v) => format!("Ok(usecs={})", v.usecs()), Err(_) => "Err(..)".to_string() };
                for &a in &tss { for &t in &tods {
                    n_eval += 2;
                    let ts = Timestamp::try_from_usecs(a).unwrap(); let tm = Time::try_from_usecs(t).unwrap();
                    let (e, act) = (ts_res(a as i128 + t as i128), show_ts(ts.add_time(tm)));
                    if e != act { fail!(format!("Timestamp(usecs={}).add_time(usecs={})", a, t), e, act); }
                    let (e, act) = (ts_res(a as i128 - t as i128), show_ts(ts.sub_time(tm)));
                    if e != act { fail!(format!("Timestamp(usecs={}).sub_time(usecs={})", a, t), e, act); }
                    if a.rem_euclid(DAY) == 0 {
                        n_eval += 2;
                        let d = date(a.div_euclid(DAY));
                        let act = format!("Ok(usecs={})", d.add_time(tm).usecs());
                        if ts_res(a as i128 + t as i128) != act { fail!(format!("Date(days={}).add_time(usecs={})", d.days(), t), ts_res(a as i128 + t as i128), act); }
                        let (e, act) = (ts_res(a as i128 - t as i128), show_ts(d.sub_time(tm)));
                        if e != act { fail!(format!("Date(days={}).sub_time(usecs={})", d.days(), t), e, act); }
                    }
                }}
                let lim: i128 = 8_640_000_000_000_000_000;
                let ivs: Vec<i64> = vec![-(lim as i64), -(lim as i64) + 1, -5_184_000_000_000_000_000, -DAY, -1, 0, 1, DAY, 5_184_000_000_000_000_000, lim as i64 - 1, lim as i64];
                let iv_res = |e: i128| if e >= -lim && e <= lim { format!("Ok(usecs={})", e) } else { "Err(..)".to_string() };
                let show_iv = |r: Result<IntervalDT, sqldatetime::Error>| match r { Ok(v) => format!("Ok(usecs={})", v.usecs()), Err(_) => "Err(..)".to_string() };
                for &a in &ivs { for &b in &ivs {
                    n_eval += 2;
                    let (x, y) = (IntervalDT::try_from_usecs(a).unwrap(), IntervalDT::try_from_usecs(b).unwrap());
                    let rr = catch_unwind(AssertUnwindSafe(|| (show_iv(x.add_interval_dt(y)), show_iv(x.sub_interval_dt(y)))));
                    let (ra, rs) = match rr { Ok(v) => v, Err(_) => ("panic".to_string(), "panic".to_string()) };
                    if iv_res(a as i128 + b as i128) != ra { fail!(format!("IntervalDT(usecs={}).add_interval_dt(usecs={})", a, b), iv_res(a as i128 + b as i128), ra); }
                    if iv_res(a as i128 - b as i128) != rs { fail!(format!("IntervalDT(usecs={}).sub_interval_dt(usecs={})", a, b), iv_res(a as i128 - b as i128), rs); }
                }}
                for &a in &tss { for &b in &ivs {
                    n_eval += 2;
                    let (ts, y) = (Timestamp::try_from_usecs(a).unwrap(), IntervalDT::try_from_usecs(b).unwrap());
                    let rr = catch_unwind(AssertUnwindSafe(|| (show_ts(ts.add_interval_dt(y)), show_ts(ts.sub_interval_dt(y)))));
                    let (ra, rs) = match rr { Ok(v) => v, Err(_) => ("panic".to_string(), "panic".to_string()) };
                    if ts_res(a as i128 + b as i128) != ra { fail!(format!("Timestamp(usecs={}).add_interval_dt(usecs={})", a, b), ts_res(a as i128 + b as i128), ra); }
                    if ts_res(a as i128 - b as i128) != rs { fail!(format!("Timestamp(usecs={}).sub_interval_dt(usecs={})", a, b), ts_res(a as i128 - b as i128), rs); }
                }}
                for &a in &tss { for &b in &tss {
                    n_eval += 1;
                    let (x, y) = (Timestamp::try_from_usecs(a).unwrap(), Timestamp::try_from_usecs(b).unwrap());
                    let act = x.sub_timestamp(y).usecs();
                    if act as i128 != a as i128 - b as i128 { fail!(format!("Timestamp(usecs={}).sub_timestamp(usecs={})", a, b), format!("{}", a as i128 - b as i128), format!("{}", act)); }
                    if b.rem_euclid(DAY) == 0 {
                        let act = x.sub_date(date(b.div_euclid(DAY))).usecs();
                        if act as i128 != a as i128 - b as i128 { fail!(format!("Timestamp(usecs={}).sub_date(days={})", a, b.div_euclid(DAY)), format!("{}", a as i128 - b as i128), format!("{}", act)); }
                    }
                    if a.rem_euclid(DAY) == 0 {
                        let act = date(a.div_euclid(DAY)).sub_timestamp(y).usecs();
                        if act as i128 != a as i128 - b as i128 { fail!(format!("Date(days={}).sub_timestamp(usecs={})", a.div_euclid(DAY), b), format!("{}", a as i128 - b as i128), format!("{}", act)); }
                    }
                }}
                let mlim: i128 = 2_136_000_000;
                let yms: Vec<i32> = vec![-2_136_000_000, -2_135_999_999, -1_200_000_000, -12, -1, 0, 1, 12, 1_200_000_000, 2_135_999_999, 2_136_000_000];
                let ym_res = |e: i128| if e >= -mlim && e <= mlim { format!("Ok(months={})", e) } else { "Err(..)".to_string() };
                let show_ym = |r: Result<IntervalYM, sqldatetime::Error>| match r { Ok(v) => format!("Ok(months={})", v.months()), Err(_) => "Err(..)".to_string() };
                for &a in &yms { for &b in &yms {
                    n_eval += 2;
                    let (x, y) = (IntervalYM::try_from_months(a).unwrap(), IntervalYM::try_from_months(b).unwrap());
                    let rr = catch_unwind(AssertUnwindSafe(|| (show_ym(x.add_interval_ym(y)), show_ym(x.sub_interval_ym(y)))));
                    let (ra, rs) = match rr { Ok(v) => v, Err(_) => ("panic".to_string(), "panic".to_string()) };
                    if ym_res(a as i128 + b as i128) != ra { fail!(format!("IntervalYM(months={}).add_interval_ym(months={})", a, b), ym_res(a as i128 + b as i128), ra); }
                    if ym_res(a as i128 - b as i128) != rs { fail!(format!("IntervalYM(months={}).sub_interval_ym(months={})", a, b), ym_res(a as i128 - b as i128), rs); }
                }}
                None
            }
            // ------------------------------------------------ C12 / C17: mixed-type comparisons, both operand orders
            "mixed_cmp" => {
                domain = "Time x IntervalDT, Date x Timestamp (and the Oracle-style date when built with it) at equal / adjacent / sign-flipped / pre-1970 values: == and partial_cmp in both operand orders against integer comparison";
                exhaustive = false;
                let tods: Vec<i64> = vec![0, 1, 3_600_000_000, 43_200_000_000, DAY - 1];
                let ivs: Vec<i64> = vec![-DAY - 1, -7_200_000_000, -1, 0, 1, 3_600_000_000, 43_200_000_000, DAY - 1, DAY, DAY + 1, 8_640_000_000_000_000_000, -8_640_000_000_000_000_000];
                for &t in &tods { for &i in &ivs {
                    n_eval += 4;
                    let (tm, iv) = (Time::try_from_usecs(t).unwrap(), IntervalDT::try_from_usecs(i).unwrap());
                    if (tm == iv) != (t == i) { fail!(format!("Time(usecs={}) == IntervalDT(usecs={})", t, i), format!("{}", t == i), format!("{}", tm == iv)); }
                    if (iv == tm) != (t == i) { fail!(format!("IntervalDT(usecs={}) == Time(usecs={})", i, t), format!("{}", t == i), format!("{}", iv == tm)); }
                    if tm.partial_cmp(&iv) != Some(t.cmp(&i)) { fail!(format!("Time(usecs={}).partial_cmp(IntervalDT(usecs={}))", t, i), format!("{:?}", Some(t.cmp(&i))), format!("{:?}", tm.partial_cmp(&iv))); }
                    if iv.partial_cmp(&tm) != Some(i.cmp(&t)) { fail!(format!("IntervalDT(usecs={}).partial_cmp(Time(usecs={}))", i, t), format!("{:?}", Some(i.cmp(&t))), format!("{:?}", iv.partial_cmp(&tm))); }
                }}
                let tsv: Vec<i64> = vec![TSMIN, TSMIN + 1, TSMIN + DAY, -2 * DAY + 43_200_000_000, -DAY, -DAY + 1, -1, 0, 1, 500_000, 1_000_000, DAY - 1, DAY, 1_623_760_230_500_000, TSMAX - DAY + 1, TSMAX];
                let dsv: Vec<i64> = vec![DMIN, DMIN + 1, -2, -1, 0, 1, 18793, DMAX];
                for &a in &tsv { for &n in &dsv {
                    n_eval += 4;
                    let (ts, d) = (Timestamp::try_from_usecs(a).unwrap(), date(n));
                    let b = n * DAY;
                    if (ts == d) != (a == b) { fail!(format!("Timestamp(usecs={}) == Date(days={})", a, n), format!("{}", a == b), format!("{}", ts == d)); }
                    if (d == ts) != (a == b) { fail!(format!("Date(days={}) == Timestamp(usecs={})", n, a), format!("{}", a == b), format!("{}", d == ts)); }
                    if ts.partial_cmp(&d) != Some(a.cmp(&b)) { fail!(format!("Timestamp(usecs={}).partial_cmp(Date(days={}))", a, n), format!("{:?}", Some(a.cmp(&b))), format!("{:?}", ts.partial_cmp(&d))); }
                    if d.partial_cmp(&ts) != Some(b.cmp(&a)) { fail!(format!("Date(days={}).partial_cmp(Timestamp(usecs={}))", n, a), format!("{:?}", Some(b.cmp(&a))), format!("{:?}", d.partial_cmp(&ts))); }
                }}
                // Oracle-style date (whole seconds) against Timestamp and Date
                for &a in &tsv { for &o in &tsv {
                    let os = o.div_euclid(1_000_000) * 1_000_000;
                    n_eval += 4;
                    let (ts, od) = (Timestamp::try_from_usecs(a).unwrap(), OracleDate::try_from_usecs(os).unwrap());
                    if (ts == od) != (a == os) { fail!(format!("Timestamp(usecs={}) == OracleDate(usecs={})", a, os), format!("{}", a == os), format!("{}", ts == od)); }
                    if (od == ts) != (a == os) { fail!(format!("OracleDate(usecs={}) == Timestamp(usecs={})", os, a), format!("{}", a == os), format!("{}", od == ts)); }
                    if ts.partial_cmp(&od) != Some(a.cmp(&os)) { fail!(format!("Timestamp(usecs={}).partial_cmp(OracleDate(usecs={}))", a, os), format!("{:?}", Some(a.cmp(&os))), format!("{:?}", ts.partial_cmp(&od))); }
                    if od.partial_cmp(&ts) != Some(os.cmp(&a)) { fail!(format!("OracleDate(usecs={}).partial_cmp(Timestamp(usecs={}))", os, a), format!("{:?}", Some(os.cmp(&a))), format!("{:?}", od.partial_cmp(&ts))); }
                }}
                for &n in &dsv { for &o in &tsv {
                    let os = o.div_euclid(1_000_000) * 1_000_000;
                    let b = n * DAY;
                    n_eval += 4;
                    let (d, od) = (date(n), OracleDate::try_from_usecs(os).unwrap());
                    if (d == od) != (b == os) { fail!(format!("Date(days={}) == OracleDate(usecs={})", n, os), format!("{}", b == os), format!("{}", d == od)); }
                    if (od == d) != (b == os) { fail!(format!("OracleDate(usecs={}) == Date(days={})", os, n), format!("{}", b == os), format!("{}", od == d)); }
                    if d.partial_cmp(&od) != Some(b.cmp(&os)) { fail!(format!("Date(days={}).partial_cmp(OracleDate(usecs={}))", n, os), format!("{:?}", Some(b.cmp(&os))), format!("{:?}", d.partial_cmp(&od))); }
                    if od.partial_cmp(&d) != Some(os.cmp(&b)) { fail!(format!("OracleDate(usecs={}).partial_cmp(Date(days={}))", os, n), format!("{:?}", Some(os.cmp(&b))), format!("{:?}", od.partial_cmp(&d))); }
                }}
                None
            }
            // ------------------------------------------------ C14: scaling by a double (reference: the same IEEE operation done here, then classified and truncated)
            "fraction_round" => {
                domain = "every 7-digit fraction; every 6-digit prefix x 8- and 9-digit tails around the rounding decisions; parsed with FF9 as Time";
                exhaustive = false;
                let tails8: [i64; 6] = [0, 44, 45, 49, 50, 99];
                let tails9: [i64; 8] = [0, 444, 445, 449, 450, 499, 500, 999];
                let check = |text: String, want: i64, n_eval: &mut u64| -> Option<Found> {
                    *n_eval += 1;
                    let full = format!("00:00:00.{}", text);
                    let exp = format!("Ok(usecs={})", want);
                    let act = match Time::parse(&full, "HH24:MI:SS.FF9") { Ok(v) => format!("Ok(usecs={})", v.usecs()), Err(_) => "Err(..)".to_string() };
                    if act != exp { Some(Found { input: format!("Time::parse({:?}, \"HH24:MI:SS.FF9\")", full), expected: exp, actual: act }) } else { None }
                };
                for v in (0..10_000_000i64).step_by(1) {
                    if v % 7 != 0 && v % 10 != 5 && v % 10 != 4 { continue; }
                    if let Some(f) = check(format!("{:07}", v), (v + 5) / 10, &mut n_eval) { return Some(f); }
                }
                for p in (0..1_000_000i64).step_by(37).chain([499_999, 999_998, 999_999]) {
                    for &t in &tails8 { if let Some(f) = check(format!("{:06}{:02}", p, t), (p * 100 + t + 50) / 100, &mut n_eval) { return Some(f); } }
                    for &t in &tails9 { if let Some(f) = check(format!("{:06}{:03}", p, t), (p * 1000 + t + 500) / 1000, &mut n_eval) { return Some(f); } }
                }
                None
            }
            "scale_f64" => {
                domain = "IntervalDT / IntervalYM / Time x doubles {0, -0, subnormal, 1e-17, 1/3, 0.5, 1, 1.5, 3, 1e10, 1e300, inf, nan and negatives}: mul_f64 and div_f64 against classify(trunc(IEEE op))";
                exhaustive = false;
                let ks: Vec<f64> = vec![0.0, -0.0, 5e-324, 1e-300, 1e-17, 2.0e-16, 1.0 / 3.0, 0.5, 1.0, 1.0000000001, 1.5, 2.0, 3.0, 49.0, 1e10, 1e19, 1e300, f64::MAX, f64::INFINITY, f64::NAN];
                let lim: f64 = 8_640_000_000_000_000_000.0;
                let dts: Vec<i64> = vec![0, 1, -1, 999_999, 86_400_000_000, 86_399_999_999, 5_184_000_000_000_000_000, 8_639_999_999_999_999_999, 8_640_000_000_000_000_000, -8_640_000_000_000_000_000, 9_007_199_254_740_993];
                let cls_dt = |p: f64, div0: bool| -> String {
                    if div0 { "Err(DivideByZero)".into() } else if p.is_infinite() { "Err(NumericOverflow)".into() } else if p.is_nan() { "Err(InvalidNumber)".into() }
                    else { let t = p.trunc(); if t >= -lim && t <= lim { format!("Ok({})", t as i64) } else { "Err(IntervalOutOfRange)".into() } } };
                let show_dt = |r: Result<IntervalDT, sqldatetime::Error>| match r { Ok(v) => format!("Ok({})", v.usecs()), Err(e) => format!("Err({:?})", e) };
                for &v in &dts { for &k0 in &ks { for sgn in [1.0f64, -1.0] {
                    let k = k0 * sgn;
                    n_eval += 2;
                    let iv = IntervalDT::try_from_usecs(v).unwrap();
                    let (e, a) = (cls_dt(v as f64 * k, false), show_dt(iv.mul_f64(k)));
                    if e != a { fail!(format!("IntervalDT(usecs={}).mul_f64({:e})", v, k), e, a); }
                    let (e, a) = (cls_dt(v as f64 / k, k == 0.0), show_dt(iv.div_f64(k)));
                    if e != a { fail!(format!("IntervalDT(usecs={}).div_f64({:e})", v, k), e, a); }
                    if (0..86_400_000_000).contains(&v) {
                        n_eval += 2;
                        let t = Time::try_from_usecs(v).unwrap();
                        let (e, a) = (cls_dt(v as f64 * k, false), show_dt(t.mul_f64(k)));
                        if e != a { fail!(format!("Time(usecs={}).mul_f64({:e})", v, k), e, a); }
                        let (e, a) = (cls_dt(v as f64 / k, k == 0.0), show_dt(t.div_f64(k)));
                        if e != a { fail!(format!("Time(usecs={}).div_f64({:e})", v, k), e, a); }
                    }
                }}}
                let mlim: f64 = 2_136_000_000.0;
                let yms: Vec<i32> = vec![0, 1, -1, 11, 12, 1_424_000_000, 2_135_999_999, 2_136_000_000, -2_136_000_000];
                let cls_ym = |p: f64, div0: bool| -> String {
                    if div0 { "Err(DivideByZero)".into() } else if p.is_infinite() { "Err(NumericOverflow)".into() } else if p.is_nan() { "Err(InvalidNumber)".into() }
                    else { let t = p.trunc(); if t >= -mlim && t <= mlim { format!("Ok({})", t as i64) } else { "Err(IntervalOutOfRange)".into() } } };
                let show_ym = |r: Result<IntervalYM, sqldatetime::Error>| match r { Ok(v) => format!("Ok({})", v.months()), Err(e) => format!("Err({:?})", e) };
                for &v in &yms { for &k0 in &ks { for sgn in [1.0f64, -1.0] {
                    let k = k0 * sgn;
                    n_eval += 2;
                    let iv = IntervalYM::try_from_months(v).unwrap();
                    let (e, a) = (cls_ym(v as f64 * k, false), show_ym(iv.mul_f64(k)));
                    if e != a { fail!(format!("IntervalYM(months={}).mul_f64({:e})", v, k), e, a); }
                    let (e, a) = (cls_ym(v as f64 / k, k == 0.0), show_ym(iv.div_f64(k)));
                    if e != a { fail!(format!("IntervalYM(months={}).div_f64({:e})", v, k), e, a); }
                }}}
                None
            }
            "second_accessor" => {
                domain = "second() of Time / Timestamp / IntervalDT / OracleDate: sub-minute counts {0,1,499999,500000,999999 us + whole seconds} under whole-minute parts from 0 to the range limits (beyond 2^53 us), both signs";
                exhaustive = false;
                let subs: Vec<i64> = { let mut v = vec![]; for k in [0i64, 1, 29, 30, 59] { for us in [0i64, 1, 499_999, 500_000, 999_999] { v.push(k * 1_000_000 + us); } } v };
                let mins: Vec<i64> = vec![0, 1, 1439, 1440, 150_119_987, 150_119_988, 288_000_000, 143_999_999_999];
                for &m in &mins { for &sub in &subs { for neg in [false, true] {
                    let total = m as i128 * 60_000_000 + sub as i128;
                    if total > 8_640_000_000_000_000_000 { continue; }
                    n_eval += 1;
                    let v = if neg { -(total as i64) } else { total as i64 };
                    let want = (if neg { -sub } else { sub }) as f64 / 1_000_000.0;
                    let got = IntervalDT::try_from_usecs(v).unwrap().second();
                    if got != Some(want) { fail!(format!("IntervalDT(usecs={}).second()", v), format!("Some({:?})", want), format!("{:?}", got)); }
                }}}
                for m in [0i64, 1, 719, 1439] { for &sub in &subs {
                    n_eval += 1;
                    let want = sub as f64 / 1_000_000.0;
                    let t = m * 60_000_000 + sub;
                    let got = Time::try_from_usecs(t).unwrap().second();
                    if got != Some(want) { fail!(format!("Time(usecs={}).second()", t), format!("Some({:?})", want), format!("{:?}", got)); }
                    for n in [DMIN, -1, 0, 19000, DMAX] {
                        n_eval += 1;
                        let got = Timestamp::try_from_usecs(n * DAY + t).unwrap().second();
                        if got != Some(want) { fail!(format!("Timestamp(usecs={}).second()", n * DAY + t), format!("Some({:?})", want), format!("{:?}", got)); }
                        if sub % 1_000_000 == 0 {
                            let got = OracleDate::try_from_usecs(n * DAY + t).unwrap().second();
                            if got != Some(want) { fail!(format!("OracleDate(usecs={}).second()", n * DAY + t), format!("Some({:?})", want), format!("{:?}", got)); }
                        }
                    }
                }}
                if date(0).second().is_some() || IntervalYM::try_from_months(5).unwrap().second().is_some() { fail!("Date / IntervalYM .second()".to_string(), "None".to_string(), "Some(..)".to_string()); }
                None
            }
            "time_tuple" => {
                domain = "validity grid h 0..=25, mi 0..=61, s 0..=61, us in {0,1,999999,1000000,u32::MAX} + all seconds";
                exhaustive = false;
                for h in (0u32..=25).chain([u32::MAX]) { for mi in (0u32..=61).chain([u32::MAX]) { for s in (0u32..=61).chain([u32::MAX]) { for us in [0u32, 1, 999_999, 1_000_000, 1_000_001, u32::MAX] {
                    n_eval += 1;
                    let ok = h < 24 && mi < 60 && s < 60 && us < 1_000_000;
                    let r = Time::try_from_hms(h, mi, s, us);
                    let exp = if ok { format!("Ok({})", h as i64 * 3_600_000_000 + mi as i64 * 60_000_000 + s as i64 * 1_000_000 + us as i64) }
                        else if h >= 24 { "Err(TimeOutOfRange)".into() } else if mi >= 60 { "Err(InvalidMinute)".into() } else if s >= 60 { "Err(InvalidSecond)".into() } else { "Err(InvalidFraction)".to_string() };
                    let act = match &r { Ok(t) => format!("Ok({})", t.usecs()), Err(e) => format!("Err({:?})", e) };
                    if act != exp { fail!(format!("Time::try_from_hms({}, {}, {}, {})", h, mi, s, us), exp, act); }
                    if Time::is_valid(h, mi, s, us) != ok { fail!(format!("Time::is_valid({}, {}, {}, {})", h, mi, s, us), format!("{}", ok), format!("{}", !ok)); }
                    if let Ok(t) = r { if t.extract() != (h, mi, s, us) { fail!(format!("Time({}).extract()", t.usecs()), format!("{:?}", (h, mi, s, us)), format!("{:?}", t.extract())); } }
                }}}}
                None
            }
            // ------------------------------------------------ C12
            "time_interval_conv" => {
                domain = "Time::try_from_usecs at and around both ends of the day and at the i64 extremes; From<IntervalDT> for Time and From<Time> for IntervalDT at 0, +-1 us, +-(1 day -1), +-1 day, +-(1 day + 1), whole days, the range limits";
                exhaustive = false;
                for v in [i64::MIN, -DAY - 1, -DAY, -DAY + 1, -1, 0, 1, DAY - 1, DAY, DAY + 1, i64::MAX] {
                    n_eval += 1;
                    let ok = v >= 0 && v < DAY;
                    let r = Time::try_from_usecs(v);
                    let act = match &r { Ok(t) => format!("Ok(usecs={})", t.usecs()), Err(_) => "Err(..)".to_string() };
                    let exp = if ok { format!("Ok(usecs={})", v) } else { "Err(..)".to_string() };
                    if act != exp { fail!(format!("Time::try_from_usecs({})", v), exp, act); }
                }
                let lim: i64 = 8_640_000_000_000_000_000;
                for i in [0i64, 1, -1, DAY - 1, -(DAY - 1), DAY, -DAY, DAY + 1, -(DAY + 1), 2 * DAY, -2 * DAY, 7 * DAY + 43_200_000_000, lim, -lim, lim - 1] {
                    n_eval += 1;
                    let t = Time::from(IntervalDT::try_from_usecs(i).unwrap());
                    let e = (i as i128).abs().rem_euclid(DAY as i128) as i64;
                    if t.usecs() != e { fail!(format!("Time::from(IntervalDT(usecs={}))", i), format!("{}", e), format!("{}", t.usecs())); }
                }
                for t in [0i64, 1, 43_200_000_000, DAY - 1] {
                    n_eval += 1;
                    let iv = IntervalDT::from(Time::try_from_usecs(t).unwrap());
                    if iv.usecs() != t { fail!(format!("IntervalDT::from(Time(usecs={}))", t), format!("{}", t), format!("{}", iv.usecs())); }
                }
                None
            }
            "time_add_interval" => {
                domain = "every second of the day (strided) x boundary intervals";
                exhaustive = false;
                let ivs: Vec<i64> = vec![0, 1, -1, DAY - 1, -(DAY - 1), DAY, -DAY, DAY + 1, 43_200_000_000, -43_200_000_000, 7 * DAY + 43_200_000_000, 8_640_000_000_000_000_000, -8_640_000_000_000_000_000, 8_639_999_999_999_999_999];
                for s in (0..86400i64).step_by(7).chain([86399]) { for us in [0i64, 1, 999_999] { for &i in &ivs {
                    n_eval += 2;
                    let t = s * 1_000_000 + us;
                    let iv = IntervalDT::try_from_usecs(i).unwrap();
                    let tt = Time::try_from_usecs(t).unwrap();
                    let a = tt.add_interval_dt(iv).usecs();
                    let e = ((t as i128 + i as i128).rem_euclid(DAY as i128)) as i64;
                    if a != e { fail!(format!("Time(usecs={}).add_interval_dt(usecs={})", t, i), format!("{}", e), format!("{}", a)); }
                    let a = tt.sub_interval_dt(iv).usecs();
                    let e = ((t as i128 - i as i128).rem_euclid(DAY as i128)) as i64;
                    if a != e { fail!(format!("Time(usecs={}).sub_interval_dt(usecs={})", t, i), format!("{}", e), format!("{}", a)); }
                }}}
                None
            }
            // ------------------------------------------------ C13
            "interval_ctor" => {
                domain = "constructor validity grid incl. range limits, u32 extremes and raw counts at the limits +-1 and the integer extremes";
                exhaustive = false;
                for m in [i32::MIN, i32::MIN + 1, -2_136_000_001, -2_136_000_000, -1, 0, 1, 2_136_000_000, 2_136_000_001, i32::MAX] {
                    n_eval += 1;
                    let ok = (m as i64).abs() <= 2_136_000_000;
                    let r = catch_unwind(AssertUnwindSafe(|| IntervalYM::try_from_months(m).map(|v| v.months())));
                    let act = match &r { Ok(Ok(v)) => format!("Ok({})", v), Ok(Err(_)) => "Err(..)".to_string(), Err(_) => "panic".to_string() };
                    let exp = if ok { format!("Ok({})", m) } else { "Err(..)".to_string() };
                    if act != exp { fail!(format!("IntervalYM::try_from_months({})", m), exp, act); }
                }
                for u in [i64::MIN, i64::MIN + 1, -8_640_000_000_000_000_001, -8_640_000_000_000_000_000, -1, 0, 1, 8_640_000_000_000_000_000, 8_640_000_000_000_000_001, i64::MAX] {
                    n_eval += 1;
                    let ok = (u as i128).abs() <= 8_640_000_000_000_000_000;
                    let r = catch_unwind(AssertUnwindSafe(|| IntervalDT::try_from_usecs(u).map(|v| v.usecs())));
                    let act = match &r { Ok(Ok(v)) => format!("Ok({})", v), Ok(Err(_)) => "Err(..)".to_string(), Err(_) => "panic".to_string() };
                    let exp = if ok { format!("Ok({})", u) } else { "Err(..)".to_string() };
                    if act != exp { fail!(format!("IntervalDT::try_from_usecs({})", u), exp, act); }
                }
                for y in [0u32, 1, 177_999_999, 178_000_000, 178_000_001, u32::MAX] { for m in [0u32, 1, 11, 12, 13, u32::MAX] {
                    n_eval += 1;
                    let total = y as i128 * 12 + m as i128;
                    let ok = m < 12 && total <= 2_136_000_000;
                    let r = IntervalYM::try_from_ym(y, m);
                    if r.is_ok() != ok || IntervalYM::is_valid_ym(y, m) != ok { fail!(format!("IntervalYM::try_from_ym({}, {})", y, m), format!("ok={}", ok), format!("{:?}", r.map(|v| v.months()))); }
                    if let Ok(v) = r { if v.months() as i128 != total || v.extract() != (Sign::Positive, y, m) { fail!(format!("IntervalYM::try_from_ym({}, {})", y, m), format!("months={}", total), format!("months={} extract={:?}", v.months(), v.extract())); } }
                }}
                for d in [0u32, 1, 32, 99_999_999, 100_000_000, 100_000_001, u32::MAX] { for h in [0u32, 23, 24] { for mi in [0u32, 59, 60] { for s in [0u32, 59, 60] { for us in [0u32, 1, 999_999, 1_000_000] {
                    n_eval += 1;
                    let total = d as i128 * DAY as i128 + h as i128 * 3_600_000_000 + mi as i128 * 60_000_000 + s as i128 * 1_000_000 + us as i128;
                    let ok = h < 24 && mi < 60 && s < 60 && us < 1_000_000 && total <= 8_640_000_000_000_000_000;
                    let r = IntervalDT::try_from_dhms(d, h, mi, s, us);
                    if r.is_ok() != ok || IntervalDT::is_valid(d, h, mi, s, us) != ok { fail!(format!("IntervalDT::try_from_dhms({}, {}, {}, {}, {})", d, h, mi, s, us), format!("ok={}", ok), format!("{:?}", r.map(|v| v.usecs()))); }
                    if let Ok(v) = r { if v.usecs() as i128 != total || v.extract() != (Sign::Positive, d, h, mi, s, us) { fail!(format!("IntervalDT::try_from_dhms({}, {}, {}, {}, {})", d, h, mi, s, us), format!("usecs={}", total), format!("usecs={} extract={:?}", v.usecs(), v.extract())); } }
                }}}}}
                None
            }
            // ------------------------------------------------ C16
            "od_from_timestamp" => {
                domain = "every date x critical times x sub-second parts";
                exhaustive = false;
                for n in DMIN..=DMAX { for &tod in &[0i64, 1_000_000, 43_200_000_000, 86_399_000_000] { for &f in &[0i64, 1, 499_999, 500_000, 999_999] {
                    if (n + f) % 3 != 0 && n > DMIN + 400 && n < DMAX - 400 && n.abs() > 400 { continue; }
                    n_eval += 1;
                    let v = n * DAY + tod + f;
                    let od = OracleDate::from(Timestamp::try_from_usecs(v).unwrap());
                    let e = v.div_euclid(1_000_000) * 1_000_000;
                    if od.usecs() != e { fail!(format!("OracleDate::from(Timestamp(usecs={}))", v), format!("{}", e), format!("{}", od.usecs())); }
                }}}
                for v in [-1i64, -999_999, -1_000_001, 1, 999_999, TSMIN + 1, TSMAX, TSMIN - 1_000_000, TSMIN - 86_399_000_000, TSMIN - DAY, TSMAX + 1, TSMAX + 1 + DAY, i64::MIN, i64::MAX] {
                    n_eval += 1;
                    let r = OracleDate::try_from_usecs(v);
                    if r.is_ok() { fail!(format!("OracleDate::try_from_usecs({})", v), "Err(DateOutOfRange)".into(), format!("Ok({})", r.unwrap().usecs())); }
                }
                for v in [TSMIN, TSMIN + 1_000_000, -1_000_000, 0, 1_000_000, TSMAX - 999_999] {
                    n_eval += 1;
                    let r = OracleDate::try_from_usecs(v);
                    if r.is_err() || r.as_ref().unwrap().usecs() != v { fail!(format!("OracleDate::try_from_usecs({})", v), format!("Ok({})", v), format!("{:?}", r.map(|x| x.usecs()))); }
                }
                None
            }
            "od_add_days" => {
                domain = "Oracle dates at the range ends, around 1970 and at sampled days x fractional-day offsets";
                exhaustive = false;
                let mut bases: Vec<i64> = vec![TSMIN, TSMIN + 1_000_000, -1_000_000, 0, 1_000_000, TSMAX - 999_999, TSMAX - 999_999 - 1_000_000];
                for k in 0..2000i64 { bases.push((DMIN + k * 1826) * DAY + (k * 7919 % 86400) * 1_000_000); }
                let offs: Vec<f64> = vec![0.0, 0.5, -0.5, 1.0, -1.0, 0.00001, -0.00001, 0.000007, -0.000007, 0.000005787037037037037, 0.0000115, 1.0 / 86400.0, 1.5 / 86400.0,
                    -1.5 / 86400.0, 0.25, 365.25, -365.25, 0.00000095367431640625,
                    499_999.0 / 86_400_000_000.0, 500_000.0 / 86_400_000_000.0, 500_001.0 / 86_400_000_000.0,
                    -499_999.0 / 86_400_000_000.0, -500_000.0 / 86_400_000_000.0, -500_001.0 / 86_400_000_000.0, 1_499_999.0 / 86_400_000_000.0];
                for &b in &bases { if b < TSMIN || b > TSMAX { continue; } for &d in &offs {
                    n_eval += 1;
                    let od = OracleDate::try_from_usecs(b).unwrap();
                    let ts = Timestamp::try_from_usecs(b).unwrap().add_days(d);
                    let r = od.add_days(d);
                    let exp = match ts { Err(_) => "Err".to_string(), Ok(t) => {
                        let u = t.usecs() as i128; let sec = u.div_euclid(1_000_000) * 1_000_000; let f = u - sec;
                        let rr = if f > 500_000 || (f == 500_000 && u >= 0) { sec + 1_000_000 } else { sec };
                        if rr >= TSMIN as i128 && rr <= TSMAX as i128 - 999_999 { format!("Ok(usecs={})", rr) } else { "Err".to_string() } } };
                    let act = match &r { Ok(v) => format!("Ok(usecs={})", v.usecs()), Err(_) => "Err".to_string() };
                    if act != exp { fail!(format!("OracleDate(usecs={}).add_days({:e})", b, d), exp, act); }
                    if let Ok(v) = &r { if v.usecs() % 1_000_000 != 0 || v.usecs() < TSMIN || v.usecs() > TSMAX { fail!(format!("OracleDate(usecs={}).add_days({:e})", b, d), "a whole second inside the range".into(), format!("usecs={}", v.usecs())); } }
                    // the three wrappers are the same operation
                    n_eval += 2;
                    let act2 = match od.sub_days(-d) { Ok(v) => format!("Ok(usecs={})", v.usecs()), Err(_) => "Err".to_string() };
                    if act2 != exp { fail!(format!("OracleDate(usecs={}).sub_days({:e})", b, -d), exp, act2); }
                    let act3 = match Timestamp::try_from_usecs(b).unwrap().oracle_add_days(d) { Ok(v) => format!("Ok(usecs={})", v.usecs()), Err(_) => "Err".to_string() };
                    if act3 != exp { fail!(format!("Timestamp(usecs={}).oracle_add_days({:e})", b, d), exp, act3); }
                }}
                None
            }
            "od_sub_date" => {
                domain = "pairs of Oracle dates (range ends, around 1970, differing times of day, both orders): sub_date == (a - b) us as f64 / 86 400 000 000";
                exhaustive = false;
                let vs: Vec<i64> = vec![TSMIN, TSMIN + 43_200_000_000, -DAY - 1_000_000, -43_200_000_000, -1_000_000, 0, 1_000_000, 43_200_000_000, DAY, DAY + 21_600_000_000,
                    -11_676_096_001_000_000, 1_577_836_800_000_000, 1_577_944_800_000_000, TSMAX - 999_999 - 43_200_000_000, TSMAX - 999_999];
                for &a in &vs { for &b in &vs {
                    n_eval += 1;
                    let (x, y) = (OracleDate::try_from_usecs(a).unwrap(), OracleDate::try_from_usecs(b).unwrap());
                    let want = (a - b) as f64 / DAY as f64;
                    let got = x.sub_date(y);
                    if got != want { fail!(format!("OracleDate(usecs={}).sub_date(OracleDate(usecs={}))", a, b), format!("{:?}", want), format!("{:?}", got)); }
                }}
                None
            }
            "ts_add_days" => {
                domain = "timestamps at the range ends / epoch / sampled x offsets with an exact product, NaN, infinities, huge";
                exhaustive = false;
                let mut bases: Vec<i64> = vec![TSMIN, TSMIN + 1, -1, 0, 1, TSMAX - 1, TSMAX];
                for k in 0..2000i64 { bases.push((DMIN + k * 1826) * DAY + (k * 7919 % 86400) * 1_000_000 + k * 499 % 1_000_000); }
                let offs: Vec<(f64, i128)> = vec![(0.0, 0), (1.0, DAY as i128), (-1.0, -(DAY as i128)), (0.5, DAY as i128 / 2), (-0.25, -(DAY as i128) / 4), (3652059.0, 3652059 * DAY as i128),
                    (-3652059.0, -3652059 * DAY as i128), (0.00000095367431640625, 82_397), (-0.00000095367431640625, -82_397), (0.0000152587890625, 1_318_359), (-0.0000152587890625, -1_318_359),
                    (61035.1563720703125, 5_273_437_510_546_875), (-61035.1563720703125, -5_273_437_510_546_875)];
                for &b in &bases { if b < TSMIN || b > TSMAX { continue; }
                    let t = Timestamp::try_from_usecs(b).unwrap();
                    for &(d, us) in &offs {
                        n_eval += 2;
                        let e = b as i128 + us;
                        let exp = if e >= TSMIN as i128 && e <= TSMAX as i128 { format!("Ok(usecs={})", e) } else { "Err(DateOutOfRange)".to_string() };
                        let act = fmt_ts_res(&t.add_days(d));
                        if act != exp { fail!(format!("Timestamp(usecs={}).add_days({:e})", b, d), exp, act); }
                        let e2 = b as i128 - us;
                        let exp2 = if e2 >= TSMIN as i128 && e2 <= TSMAX as i128 { format!("Ok(usecs={})", e2) } else { "Err(DateOutOfRange)".to_string() };
                        let act2 = fmt_ts_res(&t.sub_days(d));
                        if act2 != exp2 { fail!(format!("Timestamp(usecs={}).sub_days({:e})", b, d), exp2, act2); }
                    }
                    n_eval += 3;
                    if fmt_ts_res(&t.add_days(f64::NAN)) != "Err(InvalidNumber)" { fail!(format!("Timestamp(usecs={}).add_days(NaN)", b), "Err(InvalidNumber)".into(), fmt_ts_res(&t.add_days(f64::NAN))); }
                    if fmt_ts_res(&t.add_days(f64::INFINITY)) != "Err(NumericOverflow)" { fail!(format!("Timestamp(usecs={}).add_days(inf)", b), "Err(NumericOverflow)".into(), fmt_ts_res(&t.add_days(f64::INFINITY))); }
                    if fmt_ts_res(&t.add_days(1e200)) != "Err(DateOutOfRange)" { fail!(format!("Timestamp(usecs={}).add_days(1e200)", b), "Err(DateOutOfRange)".into(), fmt_ts_res(&t.add_days(1e200))); }
                }
                None
            }
            // ------------------------------------------------ C05 / C06 / C18: pictures of 1..3 tokens x rendered and perturbed texts
            "parse_grid" => {
                domain = "every blank-separated picture of 1..=3 tokens from 18 input tokens x texts rendered from 10 values (+ one out-of-range / mismatching component each), parsed as Date, Time and Timestamp; clock = the crate's own Date::now()";
                exhaustive = false;
                let (ny, nm, _) = { let (y, m, d) = Date::now().unwrap().extract(); (y as i64, m as i64, d as i64) };
                let input_toks: Vec<(Tok, &str)> = TOKS.iter().cloned().filter(|(t, _)| !matches!(t, Tok::W | Tok::Ww)).collect();
                let vals: [(i64, i64, i64, i64); 10] = [(2024, 2, 29, 0), (1900, 4, 10, 86_399_999_999), (2023, 12, 31, 86_399_999_999), (2024, 8, 31, 0), (2024, 10, 1, 0), (2024, 12, 31, 0), (ny, nm, 1, 43_200_000_000), (1999, 6, 21, 13 * 3_600_000_000 + 5 * 60_000_000 + 9_000_000 + 123_456),
                    (2020, 12, 31, 12 * 3_600_000_000 + 59 * 60_000_000), (1, 1, 1, 3_600_000_000)];
                let n = input_toks.len();
                let mut pics: Vec<Vec<usize>> = Vec::new();
                for a in 0..n { pics.push(vec![a]); for b in 0..n { pics.push(vec![a, b]); for c in 0..n { pics.push(vec![a, b, c]); } } }
                for pic in &pics {
                    let toks: Vec<Tok> = pic.iter().map(|&i| input_toks[i].0).collect();
                    let picture: String = pic.iter().map(|&i| input_toks[i].1).collect::<Vec<_>>().join(" ");
                    for (vi, &(y, m, d, tod)) in vals.iter().enumerate() {
                        let base: Vec<String> = toks.iter().map(|&t| render_tok(t, y, m, d, tod)).collect();
                        let mut texts: Vec<Vec<String>> = vec![base.clone()];
                        if vi < 3 {
                            // one perturbed component per position
                            for k in 0..toks.len() {
                                let y4 = format!("{:04}", y % 100);          // a zero-padded FULL year under a YY code
                                let bads: Vec<&str> = match toks[k] { Tok::Mm => vec!["13", "00"], Tok::Dd => vec!["32", "00"], Tok::Ddd => vec!["366", "000"], Tok::Hh24 => vec!["24"],
                                    Tok::Hh => vec!["13", "00"], Tok::Mi | Tok::Ss => vec!["60"], Tok::D => vec!["8", "0"],
                                    Tok::Dy => vec!["MON"], Tok::Day => vec!["MONDAY"], Tok::Mon => vec!["JUNE"], Tok::Yyyy => vec!["0000"], Tok::Yy => vec![y4.as_str()], _ => continue };
                                for bad in bads { let mut t2 = base.clone(); t2[k] = bad.to_string(); texts.push(t2); }
                            }
                        }
                        // blanks: tab / CR LF count as blanks wherever blanks may appear, a vertical tab does not
                        let mut variants: Vec<(String, Vec<String>, bool)> = texts.iter().map(|sg| (sg.join(" "), sg.clone(), false)).collect();
                        if vi == 0 {
                            variants.push((base.join("\t"), base.clone(), false));
                            variants.push((format!("  {}\r\n", base.join(" ")), base.clone(), false));
                            variants.push((format!("{}\x0B", base.join(" ")), base.clone(), true));
                        }
                        for (text, segs, must_fail) in &variants {
                            for ty in 0..3 {
                                n_eval += 1;
                                let (hd, ht) = match ty { 0 => (true, false), 1 => (false, true), _ => (true, true) };
                                let want = if *must_fail { None } else { ref_parse(&toks, segs, hd, ht, ny, nm) };
                                let (exp, act, call) = match ty {
                                    0 => (want.map(|(y, m, d, _)| format!("Ok(days={})", days_from_civil(y, m, d))).unwrap_or("Err(..)".into()),
                                          match Date::parse(&text, &picture) { Ok(v) => format!("Ok(days={})", v.days()), Err(_) => "Err(..)".into() }, "Date"),
                                    1 => (want.map(|(_, _, _, t)| format!("Ok(usecs={})", t)).unwrap_or("Err(..)".into()),
                                          match Time::parse(&text, &picture) { Ok(v) => format!("Ok(usecs={})", v.usecs()), Err(_) => "Err(..)".into() }, "Time"),
                                    _ => (want.map(|(y, m, d, t)| format!("Ok(usecs={})", days_from_civil(y, m, d) * DAY + t)).unwrap_or("Err(..)".into()),
                                          match Timestamp::parse(&text, &picture) { Ok(v) => format!("Ok(usecs={})", v.usecs()), Err(_) => "Err(..)".into() }, "Timestamp"),
                                };
                                if exp != act { fail!(format!("{}::parse({:?}, {:?})  [clock {}-{:02}]", call, text, picture, ny, nm), exp, act); }
                            }
                        }
                    }
                }
                None
            }
            // ------------------------------------------------ C04: every token on its own and in pairs
            "format_grid" => {
                domain = "every picture of 1..=2 tokens from 20 tokens x 14 values, formatted as Date, Time, Timestamp and IntervalDT (applicability only for the interval)";
                exhaustive = false;
                let vals: [(i64, i64, i64, i64); 14] = [(2024, 2, 29, 0), (2024, 3, 1, 0), (2023, 3, 1, 0), (2024, 8, 31, 1), (2024, 10, 7, 2), (2024, 12, 31, 3), (2021, 1, 29, 4), (2023, 12, 31, 86_399_999_999), (2021, 8, 22, 43_200_000_000), (1999, 6, 21, 13 * 3_600_000_000 + 5 * 60_000_000 + 9_000_000 + 123_456),
                    (2020, 12, 31, 12 * 3_600_000_000 + 59 * 60_000_000), (1, 1, 1, 3_600_000_000), (9999, 12, 31, 11 * 3_600_000_000 + 59 * 60_000_000 + 59_999_999), (1969, 7, 20, 1)];
                let n = TOKS.len();
                let mut pics: Vec<Vec<usize>> = Vec::new();
                for a in 0..n { pics.push(vec![a]); for b in 0..n { pics.push(vec![a, b]); } }
                for pic in &pics {
                    let toks: Vec<Tok> = pic.iter().map(|&i| TOKS[i].0).collect();
                    let picture: String = pic.iter().map(|&i| TOKS[i].1).collect::<Vec<_>>().join(" ");
                    for &(y, m, d, tod) in &vals {
                        let text: String = toks.iter().map(|&t| render_tok(t, y, m, d, tod)).collect::<Vec<_>>().join(" ");
                        let all_date = toks.iter().all(|&t| tok_is_date(t));
                        let all_time = toks.iter().all(|&t| !tok_is_date(t));
                        let dv = Date::try_from_ymd(y as i32, m as u32, d as u32).unwrap();
                        let tv = Time::try_from_usecs(tod).unwrap();
                        let tsv = dv.and_time(tv);
                        n_eval += 4;
                        let e0 = if all_date { format!("Ok({:?})", text) } else { "Err(..)".to_string() };
                        let a0 = show(dv.format(&picture));
                        if e0 != a0 { fail!(format!("Date({:04}-{:02}-{:02}).format({:?})", y, m, d, picture), e0, a0); }
                        let e1 = if all_time { format!("Ok({:?})", text) } else { "Err(..)".to_string() };
                        let a1 = show(tv.format(&picture));
                        if e1 != a1 { fail!(format!("Time(usecs={}).format({:?})", tod, picture), e1, a1); }
                        let e2 = format!("Ok({:?})", text);
                        let a2 = show(tsv.format(&picture));
                        if e2 != a2 { fail!(format!("Timestamp({:04}-{:02}-{:02} + {} us).format({:?})", y, m, d, tod, picture), e2, a2); }
                        // day-to-second interval: DD HH24 MI SS FF apply; 12-hour and meridian codes and every date code but DD do not
                        let ok_dt = toks.iter().all(|&t| matches!(t, Tok::Dd | Tok::Hh24 | Tok::Mi | Tok::Ss | Tok::Ff3 | Tok::Ff6));
                        let iv = IntervalDT::try_from_usecs(tod).unwrap();
                        let a3 = show(iv.format(&picture));
                        if ok_dt != a3.starts_with("Ok") { fail!(format!("IntervalDT(usecs={}).format({:?})", tod, picture), (if ok_dt { "Ok(..)" } else { "Err(..)" }).to_string(), a3); }
                    }
                }
                None
            }
            "naive_carry" => {
                domain = "texts with a 7-digit fraction at the carry boundary x field extremes, parsed as IntervalDT / Time / Timestamp";
                exhaustive = false;
                let fr: [i64; 6] = [0, 4, 5, 9_999_994, 9_999_995, 9_999_999];
                for neg in [false, true] { for d in [0i64, 1, 99_999_999, 100_000_000] { for h in [0i64, 23] { for mi in [0i64, 59] { for sc in [0i64, 59] { for &f in &fr {
                    n_eval += 1;
                    let text = format!("{}{} {:02}:{:02}:{:02}.{:07}", if neg { "-" } else { "+" }, d, h, mi, sc, f);
                    let total = d as i128 * DAY as i128 + (h * 3600 + mi * 60 + sc) as i128 * 1_000_000 + ((f + 5) / 10) as i128;
                    let exp = if total <= 8_640_000_000_000_000_000 { format!("Ok(usecs={})", if neg { -total } else { total }) } else { "Err(..)".to_string() };
                    let r = IntervalDT::parse(&text, "DD HH24:MI:SS.FF7");
                    let act = match &r { Ok(v) => format!("Ok(usecs={})", v.usecs()), Err(_) => "Err(..)".to_string() };
                    if act != exp { fail!(format!("IntervalDT::parse({:?}, \"DD HH24:MI:SS.FF7\")", text), exp, act); }
                }}}}}}
                for h in [0i64, 11, 23] { for mi in [0i64, 59] { for sc in [0i64, 59] { for &f in &fr {
                    n_eval += 1;
                    let text = format!("{:02}:{:02}:{:02}.{:07}", h, mi, sc, f);
                    let total = (h * 3600 + mi * 60 + sc) * 1_000_000 + (f + 5) / 10;
                    let exp = if total < DAY { format!("Ok(usecs={})", total) } else { "Err(..)".to_string() };
                    let r = Time::parse(&text, "HH24:MI:SS.FF7");
                    let act = match &r { Ok(v) => format!("Ok(usecs={})", v.usecs()), Err(_) => "Err(..)".to_string() };
                    if act != exp { fail!(format!("Time::parse({:?}, \"HH24:MI:SS.FF7\")", text), exp, act); }
                    for (y, m, dd) in [(1i64, 1i64, 1i64), (1969, 12, 31), (1970, 1, 1), (2024, 2, 29), (9999, 12, 31)] {
                        n_eval += 1;
                        let text = format!("{:04}-{:02}-{:02} {:02}:{:02}:{:02}.{:07}", y, m, dd, h, mi, sc, f);
                        let e = days_from_civil(y, m, dd) as i128 * DAY as i128 + total as i128;
                        let exp = if e >= TSMIN as i128 && e <= TSMAX as i128 { format!("Ok(usecs={})", e) } else { "Err(..)".to_string() };
                        let r = Timestamp::parse(&text, "YYYY-MM-DD HH24:MI:SS.FF7");
                        let act = match &r { Ok(v) => format!("Ok(usecs={})", v.usecs()), Err(_) => "Err(..)".to_string() };
                        if act != exp { fail!(format!("Timestamp::parse({:?}, \"YYYY-MM-DD HH24:MI:SS.FF7\")", text), exp, act); }
                    }
                }}}}
                None
            }
            _ => { domain = "unknown oracle"; exhaustive = false; None }
        }
    })();
    let _ = seed;
    Outcome { found, evaluations: n_eval, exhaustive, domain }
}

fn esc(s: &str) -> String { s.replace('\\', "\\\\").replace('"', "\\\"") }

fn main() {
    let args: Vec<String> = std::env::args().collect();
    if args.len() >= 2 && args[1] == "list" {
        println!("date_extract date_from_ymd date_from_days date_add_sub_days date_day_of_week date_add_months ts_add_months last_day_of_month date_trunc date_round ts_trunc ts_round od_trunc od_round ts_split time_tuple time_add_interval interval_ctor od_from_timestamp od_add_days ts_add_days naive_carry parse_grid format_grid and_hms linear_arith mixed_cmp second_accessor scale_f64 fraction_round od_sub_date time_interval_conv");
        return;
    }
    if args.len() >= 3 && args[1] == "search" {
        let seed = args.get(3).and_then(|s| s.parse().ok()).unwrap_or(0);
        let name = args[2].clone();
        std::panic::set_hook(Box::new(|_| {}));
        let r = catch_unwind(AssertUnwindSafe(|| search(&name, seed)));
        match r {
            Ok(o) => {
                let f = match &o.found { Some(f) => format!("{{\"call\": \"{}\", \"expected\": \"{}\", \"actual\": \"{}\"}}", esc(&f.input), esc(&f.expected), esc(&f.actual)), None => "null".to_string() };
                println!("{{\"oracle\": \"{}\", \"input\": {}, \"evaluations\": {}, \"exhaustive\": {}, \"domain\": \"{}\"}}", name, f, o.evaluations, o.exhaustive && o.found.is_none(), esc(o.domain));
            }
            Err(p) => {
                let msg = p.downcast_ref::<String>().cloned().or_else(|| p.downcast_ref::<&str>().map(|s| s.to_string())).unwrap_or_default();
                println!("{{\"oracle\": \"{}\", \"input\": {{\"call\": \"(panic inside the search loop)\", \"expected\": \"no panic\", \"actual\": \"panic: {}\"}}, \"evaluations\": 0, \"exhaustive\": false, \"domain\": \"\"}}", name, esc(&msg));
            }
        }
        return;
    }
    eprintln!("usage: replayer search <oracle> [seed] | list");
    std::process::exit(2);
}
