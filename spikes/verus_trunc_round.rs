use vstd::prelude::*;
verus! {


pub const MONTHS_PER_YEAR: u32 = 12;

spec fn leap(y: int) -> bool { y % 4 == 0 && (y % 100 != 0 || y % 400 == 0) }
spec fn cum(m: int) -> int {
    if m == 1 { 0 } else if m == 2 { 31 } else if m == 3 { 59 } else if m == 4 { 90 }
    else if m == 5 { 120 } else if m == 6 { 151 } else if m == 7 { 181 } else if m == 8 { 212 }
    else if m == 9 { 243 } else if m == 10 { 273 } else if m == 11 { 304 } else { 334 }
}
spec fn mdays(y: int, m: int) -> int {
    if m == 2 { if leap(y) { 29 } else { 28 } }
    else if m == 4 || m == 6 || m == 9 || m == 11 { 30 } else { 31 }
}
spec fn ld(y: int) -> int { y / 4 - y / 100 + y / 400 }
spec fn rata(y: int, m: int, d: int) -> int {
    365 * (y - 1) + ld(y - 1) + cum(m) + (if m > 2 && leap(y) { 1int } else { 0int }) + d - 1
}
spec fn valid_ymd(y: int, m: int, d: int) -> bool { 1 <= m <= 12 && 1 <= d <= mdays(y, m) }

// march-based cumulative days
spec fn mcum(m: int) -> int { if m >= 3 { cum(m) - 59 } else { cum(m) + 306 } }
spec fn f4(n: int) -> int { 365 * n + n / 4 }

proof fn lemma_ld_shift(y: int) ensures ld(y + 4800) == ld(y) + 1164 {
    assert((y + 4800) / 4 == y / 4 + 1200);
    assert((y + 4800) / 100 == y / 100 + 48);
    assert((y + 4800) / 400 == y / 400 + 12);
}
proof fn lemma_ld_step(y: int)
    ensures ld(y) == ld(y - 1) + (if leap(y) {1int} else {0int})
{
    assert(y / 4 == (y - 1) / 4 + (if y % 4 == 0 {1int} else {0int}));
    assert(y / 100 == (y - 1) / 100 + (if y % 100 == 0 {1int} else {0int}));
    assert(y / 400 == (y - 1) / 400 + (if y % 400 == 0 {1int} else {0int}));
    assert(y % 400 == 0 ==> y % 100 == 0);
    assert(y % 100 == 0 ==> y % 4 == 0);
}

// Stage 1+2: century correction
proof fn lemma_stage12(jj: int, q: int, rem: int, c: int, z: int)
    requires jj >= 0, q == jj / 146097, rem == jj - q * 146097, c == (rem * 4 + 3) / 146097, z == rem + c
    ensures 0 <= c <= 3, 0 <= rem < 146097,
        36525 * c <= z, c < 3 ==> z <= 36525 * (c + 1) - 2, z <= 146099,
{
}

// Stage 3: 4-year cycle
proof fn lemma_stage3(jp: int, q4: int, r4: int, y: int, yj: int, doy0: int)
    requires jp >= 0, q4 == jp / 1461, r4 == jp - q4 * 1461, y == r4 * 4 / 1461, yj == 4 * q4 + y,
        doy0 == r4 - (if y == 0 { 0int } else { 365 * y + 1 })
    ensures 0 <= y <= 3, 0 <= doy0 < (if y == 0 { 366int } else { 365int }),
        jp == 365 * yj + (yj + 3) / 4 + doy0, yj >= 0, (y == 0) == (yj % 4 == 0)
{
}

// Stage 4: march rotation
proof fn lemma_stage4(r4: int, y: int, yj: int, doy0: int, t: int, ym: int)
    requires 0 <= y <= 3, yj >= 0, (y == 0) == (yj % 4 == 0),
        0 <= doy0 < (if y == 0 { 366int } else { 365int }),
        doy0 == r4 - (if y == 0 { 0int } else { 365 * y + 1 }),
        t == (if y != 0 { (r4 + 305) % 365 } else { (r4 + 306) % 366 }),
        ym == yj - (if doy0 < 59 + (if y == 0 {1int} else {0int}) { 1int } else { 0int }),
    ensures
        365 * yj + (yj + 3) / 4 + doy0 - 60 == f4(ym) + t,
        0 <= t <= 364 + (if (ym + 1) % 4 == 0 { 1int } else { 0int }),
        t <= 305 <==> ym == yj,
{
}


// Stage 5: gregorian connection
proof fn lemma_stage5(q: int, c: int, z: int, ym: int, t: int)
    requires q >= 0, 0 <= c <= 3, 36525 * c <= z, c < 3 ==> z <= 36525 * (c + 1) - 2, z <= 146099,
        ym >= -1,
        146100 * q + z == f4(ym) + t,
        0 <= t <= 364 + (if (ym + 1) % 4 == 0 { 1int } else { 0int }),
    ensures ym >= 0, ym / 400 == q, (ym / 100) % 4 == c, ym / 100 == 4 * q + c,
        t <= 364 + (if leap(ym + 1) { 1int } else { 0int }),
{
    let n = ym - 400 * q;
    assert(f4(ym) == 146100 * q + f4(n));
    assert(z == f4(n) + t);
    assert(0 <= n < 400);
    assert(n / 100 == c);
    assert(ym / 100 == 4 * q + n / 100);
}

// Stage 6: month / day within march-based year
proof fn lemma_stage6(t: int, jl: int, quad: int, day: int, month: int)
    requires 0 <= t <= 365, jl == t + 123, quad == jl * 2141 / 65536,
        day == jl - 7834 * quad / 256, month == (quad + 10) % 12 + 1
    ensures 1 <= month <= 12, t == mcum(month) + day - 1, 1 <= day <= 31,
        month != 2 ==> day <= mdays(1, month), month == 2 ==> day <= 29,
        t <= 305 <==> month >= 3,
        (month == 2 && day == 29) ==> t == 365,
{
    assert(4 <= quad <= 15);
    assert(quad == 4 ==> 7834 * quad / 256 == 122);
    assert(quad == 5 ==> 7834 * quad / 256 == 153);
    assert(quad == 6 ==> 7834 * quad / 256 == 183);
    assert(quad == 7 ==> 7834 * quad / 256 == 214);
    assert(quad == 8 ==> 7834 * quad / 256 == 244);
    assert(quad == 9 ==> 7834 * quad / 256 == 275);
    assert(quad == 10 ==> 7834 * quad / 256 == 306);
    assert(quad == 11 ==> 7834 * quad / 256 == 336);
    assert(quad == 12 ==> 7834 * quad / 256 == 367);
    assert(quad == 13 ==> 7834 * quad / 256 == 397);
    assert(quad == 14 ==> 7834 * quad / 256 == 428);
    assert(quad == 15 ==> 7834 * quad / 256 == 459);
}


proof fn lemma_j2d(jd: int) -> (r: (int, int, int))
    requires 0 <= jd <= 100000000
    ensures ({
        let jj = jd + 32044;
        let q = jj / 146097;
        let rem = jj - q * 146097;
        let c = (rem * 4 + 3) / 146097;
        let jp = jj + 60 + q * 3 + c;
        let q4 = jp / 1461;
        let r4 = jp - q4 * 1461;
        let y = r4 * 4 / 1461;
        let t = if y != 0 { (r4 + 305) % 365 } else { (r4 + 306) % 366 };
        let jl = t + 123;
        let year = y + q4 * 4 - 4800;
        let quad = jl * 2141 / 65536;
        let day = jl - 7834 * quad / 256;
        let month = (quad + 10) % 12 + 1;
        &&& r == (year, month, day)
        &&& valid_ymd(year, month, day)
        &&& rata(year, month, day) + 1721426 == jd
        &&& 0 <= q <= 1000 && 0 <= c <= 3 && 0 <= rem < 146097 && 0 <= q4 && 0 <= r4 < 1461 && 0 <= y <= 3 && 0 <= t <= 365 && 4 <= quad <= 15
    })
{
    let jj = jd + 32044;
    let q = jj / 146097;
    let rem = jj - q * 146097;
    let c = (rem * 4 + 3) / 146097;
    let z = rem + c;
    lemma_stage12(jj, q, rem, c, z);
    let jp = jj + 60 + q * 3 + c;
    let q4 = jp / 1461;
    let r4 = jp - q4 * 1461;
    let y = r4 * 4 / 1461;
    let yj = 4 * q4 + y;
    let doy0 = r4 - (if y == 0 { 0int } else { 365 * y + 1 });
    lemma_stage3(jp, q4, r4, y, yj, doy0);
    let t = if y != 0 { (r4 + 305) % 365 } else { (r4 + 306) % 366 };
    let ym = yj - (if doy0 < 59 + (if y == 0 {1int} else {0int}) { 1int } else { 0int });
    lemma_stage4(r4, y, yj, doy0, t, ym);
    assert(146100 * q + z == f4(ym) + t);
    lemma_stage5(q, c, z, ym, t);
    let jl = t + 123;
    let quad = jl * 2141 / 65536;
    let day = jl - 7834 * quad / 256;
    let month = (quad + 10) % 12 + 1;
    lemma_stage6(t, jl, quad, day, month);
    let year = yj - 4800;
    // stage 7
    assert(jj == f4(ym) - ym / 100 + ym / 400 + t) by {
        assert(ym / 100 - ym / 400 == 3 * q + c);
    }
    lemma_ld_shift(year);
    lemma_ld_shift(year - 1);
    lemma_ld_step(year);
    assert(f4(ym) - ym / 100 + ym / 400 == 365 * ym + ld(ym));
    if month >= 3 {
        assert(ym == yj);
    } else {
        assert(ym == yj - 1);
    }
    assert(rata(year, month, day) + 1721426 == jd);
    assert(valid_ymd(year, month, day));
    (year, month, day)
}


const fn julian2date(julian_day: i32) -> (r: (i32, u32, u32))
    requires 0 <= julian_day <= 100000000,
    ensures valid_ymd(r.0 as int, r.1 as int, r.2 as int),
        rata(r.0 as int, r.1 as int, r.2 as int) + 1721426 == julian_day,
{
    proof { lemma_j2d(julian_day as int); }
    let mut julian = julian_day as u32 + 32044;
    let mut quad = julian / 146097;
    let extra = (julian - quad * 146097) * 4 + 3;
    julian += 60 + quad * 3 + extra / 146097;
    quad = julian / 1461;
    julian -= quad * 1461;

    let mut y: i32 = (julian * 4 / 1461) as i32;
    julian = if y != 0 {
        (julian + 305) % 365 + 123
    } else {
        (julian + 306) % 366 + 123
    };
    y += (quad * 4) as i32;
    let year = y - 4800;
    quad = julian * 2141 / 65_536;

    let day = julian - 7834 * quad / 256;
    let month = (quad + 10) % MONTHS_PER_YEAR as u32 + 1;

    (year, month, day)
}

proof fn lemma_cent(y: int)
    requires y >= 0
    ensures (y/100)/4 == y/400,
{
}
proof fn lemma_mtab(m: int)
    requires 4 <= m <= 15
    ensures 7834 * m / 256 == (if m <= 13 { cum(m - 1) + 63 } else { cum(m - 13) + 428 })
{
}
const fn date2julian(year: i32, month: u32, day: u32) -> (r: i32)
    requires -4700 <= year <= 100000, 1 <= month <= 12, 0 <= day <= 31,
    ensures r == rata(year as int, month as int, day as int) + 1721426,
{
    let (y, m) = if month > 2 {
        (year + 4800, month + 1)
    } else {
        (year + 4799, month + 13)
    };

    let century = y / 100;

    let mut julian = y * 365 - 32167;
    julian += y / 4 - century + century / 4;
    proof {
        lemma_cent(y as int);
        assert(y / 4 - century + century / 4 == ld(y as int));
        lemma_ld_shift(year as int);
        lemma_ld_shift(year as int - 1);
        lemma_ld_step(year as int);
        lemma_mtab(m as int);
    }
    julian += 7834 * m as i32 / 256 + day as i32;

    julian
}

pub const DATE_MIN_YEAR: i32 = 1;
pub const DATE_MAX_YEAR: i32 = 9999;
pub const UNIX_EPOCH_JULIAN: i32 = 2440588;

type Result<T> = std::result::Result<T, Error>;
#[derive(Debug)]
enum Error { DateOutOfRange, InvalidMonth, InvalidDay, InvalidDate }

const fn is_leap_year(year: i32) -> (r: bool) ensures r == leap(year as int)
{
    year % 4 == 0 && ((year % 100) != 0 || (year % 400) == 0)
}

const fn days_of_month(year: i32, month: u32) -> (r: u32)
    requires 1 <= month <= 12
    ensures r == mdays(year as int, month as int)
{
    const DAY_TABLE: [[u32; 13]; 2] = [
        [0, 31, 28, 31, 30, 31, 30, 31, 31, 30, 31, 30, 31],
        [0, 31, 29, 31, 30, 31, 30, 31, 31, 30, 31, 30, 31],
    ];

    DAY_TABLE[is_leap_year(year) as usize][month as usize]
}

const fn is_valid_date(date: i32) -> (r: bool) ensures r == (-719162 <= date <= 2932896) {
    date >= (1721426 - UNIX_EPOCH_JULIAN) && date <= (5373484 - UNIX_EPOCH_JULIAN)
}

#[derive(Copy, Clone)]
struct Date(i32);
#[derive(Copy, Clone)]
struct IntervalYM(i32);
impl IntervalYM {
    spec fn wf(self) -> bool { -2136000000 <= self.0 <= 2136000000 }
    const fn months(self) -> (r: i32) ensures r == self.0 { self.0 }
}

// days since unix epoch of a civil date
spec fn dn(y: int, m: int, d: int) -> int { rata(y, m, d) - 719162 }
spec fn date_ok(y: int, m: int, d: int) -> bool { 1 <= y <= 9999 && valid_ymd(y, m, d) }

proof fn lemma_rata_bounds(y: int, m: int, d: int)
    requires date_ok(y, m, d)
    ensures -719162 <= dn(y, m, d) <= 2932896
{
    lemma_ld_mono(y - 1);
}
proof fn lemma_bounds_forall()
    ensures forall|y: int, m: int, d: int| date_ok(y, m, d) ==> -719162 <= #[trigger] dn(y, m, d) <= 2932896
{
    assert forall|y: int, m: int, d: int| date_ok(y, m, d) implies -719162 <= #[trigger] dn(y, m, d) <= 2932896 by { lemma_rata_bounds(y, m, d); }
}
proof fn lemma_ld_mono(y: int)
    requires 0 <= y <= 9998
    ensures 0 <= ld(y) <= 2424, 
{
}

impl Date {
    spec fn wf(self) -> bool { -719162 <= self.0 <= 2932896 }

    const unsafe fn from_ymd_unchecked(year: i32, month: u32, day: u32) -> (r: Date)
        requires 0 <= year <= 10000, 1 <= month <= 12, 0 <= day <= 31,
        ensures r.0 == dn(year as int, month as int, day as int)
    {
        let date = date2julian(year, month, day) - UNIX_EPOCH_JULIAN;
        Date(date)
    }

    const fn try_from_ymd(year: i32, month: u32, day: u32) -> (r: Result<Date>)
        ensures
            date_ok(year as int, month as int, day as int) ==> r.is_ok() && r.unwrap().0 == dn(year as int, month as int, day as int) && r.unwrap().wf(),
            !date_ok(year as int, month as int, day as int) ==> r.is_err(),
            (year < 1 || year > 9999) ==> r == Err::<Date, Error>(Error::DateOutOfRange),
            (1 <= year <= 9999 && (month < 1 || month > 12)) ==> r == Err::<Date, Error>(Error::InvalidMonth),
            (1 <= year <= 9999 && 1 <= month <= 12 && (day < 1 || day > 31)) ==> r == Err::<Date, Error>(Error::InvalidDay),
            (1 <= year <= 9999 && 1 <= month <= 12 && 1 <= day <= 31 && day > mdays(year as int, month as int)) ==> r == Err::<Date, Error>(Error::InvalidDate),
    {
        proof { if date_ok(year as int, month as int, day as int) { lemma_rata_bounds(year as int, month as int, day as int); } }
        if year < DATE_MIN_YEAR || year > DATE_MAX_YEAR {
            return Err(Error::DateOutOfRange);
        }

        if month < 1 || month > MONTHS_PER_YEAR {
            return Err(Error::InvalidMonth);
        }

        if day < 1 || day > 31 {
            return Err(Error::InvalidDay);
        }

        if day > days_of_month(year, month) {
            return Err(Error::InvalidDate);
        }

        Ok(unsafe { Date::from_ymd_unchecked(year, month, day) })
    }

    const fn days(self) -> (r: i32) ensures r == self.0 {
        self.0
    }

    const fn extract(self) -> (r: (i32, u32, u32))
        requires self.wf()
        ensures date_ok(r.0 as int, r.1 as int, r.2 as int), dn(r.0 as int, r.1 as int, r.2 as int) == self.0,
            civil(self.0 as int) == (r.0 as int, r.1 as int, r.2 as int)
    {
        proof { lemma_year_range(self.0 as int + 2440588); lemma_civil_unique(self.0 as int); }
        julian2date(self.0 + UNIX_EPOCH_JULIAN)
    }

    fn add_interval_ym_internal(self, interval: IntervalYM) -> (r: Result<Date>)
        requires self.wf(), interval.wf()
        ensures ({
            let (y, m, d) = civil(self.0 as int);
            let t = y * 12 + (m - 1) + interval.0;
            let ny = t / 12;
            let nm = t % 12 + 1;
            &&& date_ok(ny, nm, d) ==> r.is_ok() && r.unwrap().0 == dn(ny, nm, d)
            &&& !date_ok(ny, nm, d) ==> r.is_err()
        })
    {
        
        let (year, month, day) = self.extract();

        let mut new_month = month as i32 + interval.months();
        let mut new_year = year;

        if new_month > MONTHS_PER_YEAR as i32 {
            new_year += (new_month - 1) / MONTHS_PER_YEAR as i32;
            new_month = (new_month - 1) % MONTHS_PER_YEAR as i32 + 1;
        } else if new_month < 1 {
            new_year += new_month / MONTHS_PER_YEAR as i32 - 1;
            new_month = new_month % MONTHS_PER_YEAR as i32 + MONTHS_PER_YEAR as i32;
        }

        Date::try_from_ymd(new_year, new_month as u32, day)
    }

    fn last_day_of_month(self) -> (r: Date)
        requires self.wf()
        ensures ({
            let (y, m, d) = civil(self.0 as int);
            r.0 == dn(y, m, mdays(y, m)) && r.wf()
        })
    {
        proof { lemma_civil_unique(self.0 as int); lemma_bounds_forall(); }
        let (year, month, day) = self.extract();

        let result_day = days_of_month(year, month);
        let result = self.days() + result_day as i32 - day as i32;

        unsafe { Date::from_days_unchecked(result) }
    }
    const unsafe fn from_days_unchecked(days: i32) -> (r: Self) ensures r.0 == days {
        Date(days)
    }
}

spec fn ylen(y: int) -> int { if leap(y) { 366 } else { 365 } }

// first day of next year follows last day of this year
proof fn lemma_year_step(y: int)
    ensures rata(y + 1, 1, 1) == rata(y, 1, 1) + ylen(y), rata(y, 12, 31) + 1 == rata(y + 1, 1, 1)
{
    lemma_ld_step(y);
}
proof fn lemma_year_mono(a: int, b: int)
    requires a <= b
    ensures rata(b, 1, 1) >= rata(a, 1, 1) + 365 * (b - a)
    decreases b - a
{
    if a < b { lemma_year_mono(a, b - 1); lemma_year_step(b - 1); }
}
// within a year: day-of-year in 0..ylen
proof fn lemma_within_year(y: int, m: int, d: int)
    requires valid_ymd(y, m, d)
    ensures rata(y, 1, 1) <= rata(y, m, d) < rata(y, 1, 1) + ylen(y),
       m < 12 ==> rata(y, m, mdays(y, m)) + 1 == rata(y, m + 1, 1),
{
}
spec fn lex_lt(y1: int, m1: int, d1: int, y2: int, m2: int, d2: int) -> bool {
    y1 < y2 || (y1 == y2 && (m1 < m2 || (m1 == m2 && d1 < d2)))
}
proof fn lemma_rata_strict_mono(y1: int, m1: int, d1: int, y2: int, m2: int, d2: int)
    requires valid_ymd(y1, m1, d1), valid_ymd(y2, m2, d2), lex_lt(y1, m1, d1, y2, m2, d2)
    ensures rata(y1, m1, d1) < rata(y2, m2, d2)
{
    lemma_within_year(y1, m1, d1);
    lemma_within_year(y2, m2, d2);
    if y1 < y2 {
        lemma_year_step(y1);
        lemma_year_mono(y1 + 1, y2);
    }
}
proof fn lemma_rata_injective(y1: int, m1: int, d1: int, y2: int, m2: int, d2: int)
    requires valid_ymd(y1, m1, d1), valid_ymd(y2, m2, d2), rata(y1, m1, d1) == rata(y2, m2, d2)
    ensures y1 == y2 && m1 == m2 && d1 == d2
{
    if lex_lt(y1, m1, d1, y2, m2, d2) { lemma_rata_strict_mono(y1, m1, d1, y2, m2, d2); }
    if lex_lt(y2, m2, d2, y1, m1, d1) { lemma_rata_strict_mono(y2, m2, d2, y1, m1, d1); }
}
// successor date
spec fn succ(y: int, m: int, d: int) -> (int, int, int) {
    if d < mdays(y, m) { (y, m, d + 1) } else if m < 12 { (y, m + 1, 1) } else { (y + 1, 1, 1) }
}
proof fn lemma_succ(y: int, m: int, d: int)
    requires valid_ymd(y, m, d)
    ensures ({ let s = succ(y, m, d); valid_ymd(s.0, s.1, s.2) && rata(s.0, s.1, s.2) == rata(y, m, d) + 1 })
{
    lemma_within_year(y, m, d);
    lemma_year_step(y);
}

spec fn civil(n: int) -> (int, int, int) {
    choose|t: (int, int, int)| date_ok(t.0, t.1, t.2) && dn(t.0, t.1, t.2) == n
}
proof fn lemma_civil_unique(n: int)
    ensures forall|y: int, m: int, d: int| date_ok(y, m, d) && #[trigger] dn(y, m, d) == n ==> civil(n) == (y, m, d)
{
    assert forall|y: int, m: int, d: int| date_ok(y, m, d) && #[trigger] dn(y, m, d) == n implies civil(n) == (y, m, d) by {
        let w = (y, m, d);
        assert(date_ok(w.0, w.1, w.2) && dn(w.0, w.1, w.2) == n);
        let t = civil(n);
        assert(date_ok(t.0, t.1, t.2) && dn(t.0, t.1, t.2) == n);
        lemma_rata_injective(t.0, t.1, t.2, y, m, d);
    }
}
proof fn lemma_civil_props(n: int)
    requires -719162 <= n <= 2932896
    ensures ({ let t = civil(n); date_ok(t.0, t.1, t.2) && dn(t.0, t.1, t.2) == n })
{
    let r = lemma_j2d(n + 2440588);
    lemma_year_range(n + 2440588);
    assert(rata(r.0, r.1, r.2) + 1721426 == n + 2440588);
    let w = (r.0, r.1, r.2);
    assert(date_ok(w.0, w.1, w.2) && dn(w.0, w.1, w.2) == n);
}
proof fn lemma_year_range(jd: int)
    requires 1721426 <= jd <= 5373484
    ensures forall|y: int, m: int, d: int| valid_ymd(y, m, d) && #[trigger] rata(y, m, d) + 1721426 == jd ==> 1 <= y <= 9999
{
    assert forall|y: int, m: int, d: int| valid_ymd(y, m, d) && #[trigger] rata(y, m, d) + 1721426 == jd implies 1 <= y <= 9999 by {
        lemma_within_year(y, m, d);
        if y < 1 { lemma_year_mono(y, 0); lemma_year_step(0); }
        if y > 9999 { lemma_year_mono(10000, y); }
    }
}

const ROUNDS_UP_DAY: u32 = 16;
impl Date {
    fn year(&self) -> (r: Option<i32>) requires self.wf() ensures r.is_some(), r.unwrap() == civil(self.0 as int).0 {
        let (year, _, _) = self.extract();
        Some(year)
    }
    fn day(&self) -> (r: Option<i32>) requires self.wf() ensures r.is_some(), r.unwrap() == civil(self.0 as int).2 {
        let (_, _, day) = self.extract();
        Some(day as i32)
    }
    const fn try_from_days(days: i32) -> (r: Result<Self>)
        ensures r.is_ok() <==> (-719162 <= days <= 2932896), r.is_ok() ==> r.unwrap().0 == days
    {
        if is_valid_date(days) {
            Ok(unsafe { Date::from_days_unchecked(days) })
        } else {
            Err(Error::DateOutOfRange)
        }
    }
    const fn sub_date(self, date: Date) -> (r: i32) requires self.wf(), date.wf() ensures r == self.0 - date.0 {
        self.days() - date.days()
    }
    const fn sub_days(self, days: i32) -> (r: Result<Date>)
        requires self.wf()
        ensures r.is_ok() <==> (-719162 <= self.0 - days <= 2932896), r.is_ok() ==> r.unwrap().0 == self.0 - days
    {
        let result = self.days().checked_sub(days);
        match result {
            Some(d) => Date::try_from_days(d),
            None => Err(Error::DateOutOfRange),
        }
    }

    fn trunc_century(self) -> (r: Result<Self>)
        requires self.wf()
        ensures ({ let (y, m, d) = civil(self.0 as int); r.is_ok() && r.unwrap().0 == dn((y - 1) / 100 * 100 + 1, 1, 1) })
    {
        proof { lemma_civil_props(self.0 as int); }
        let mut year = self.year().unwrap();

        if year % 100 == 0 {
            year -= 1;
        }

        year = year / 100 * 100 + 1;
        Ok(unsafe { Date::from_ymd_unchecked(year, 1, 1) })
    }

    fn trunc_quarter(self) -> (r: Result<Self>)
        requires self.wf()
        ensures ({ let (y, m, d) = civil(self.0 as int); r.is_ok() && r.unwrap().0 == dn(y, (m - 1) / 3 * 3 + 1, 1) })
    {
        proof { lemma_civil_props(self.0 as int); }
        const QUARTER_FIRST_MONTH: [u32; 12] = [1, 1, 1, 4, 4, 4, 7, 7, 7, 10, 10, 10];

        let (year, month, _) = self.extract();
        let quarter_month = QUARTER_FIRST_MONTH[month as usize - 1];

        Ok(unsafe { Date::from_ymd_unchecked(year, quarter_month, 1) })
    }

    fn trunc_week(self) -> (r: Result<Self>)
        requires self.wf()
        ensures ({ let (y, m, d) = civil(self.0 as int); r.is_ok() && r.unwrap().0 == self.0 - (self.0 - dn(y, 1, 1)) % 7 })
    {
        proof { lemma_civil_props(self.0 as int); let (y, m, d) = civil(self.0 as int); lemma_within_year(y, m, d); lemma_within_year(y, 1, 1); lemma_rata_bounds(y, 1, 1); }
        let trunc_day =
            self.sub_date(unsafe { Date::from_ymd_unchecked(self.year().unwrap(), 1, 1) }) % 7;
        let res_date = self.sub_days(trunc_day)?;
        Ok(res_date)
    }

    fn trunc_month_start_week(self) -> (r: Result<Self>)
        requires self.wf()
        ensures ({ let (y, m, d) = civil(self.0 as int); r.is_ok() && r.unwrap().0 == dn(y, m, (d - 1) / 7 * 7 + 1) })
    {
        proof { lemma_civil_props(self.0 as int); let (y, m, d) = civil(self.0 as int); lemma_rata_bounds(y, m, (d - 1) / 7 * 7 + 1); }
        let remain_day = self.day().unwrap() % 7;
        let trunc_day = if remain_day == 0 { 6 } else { remain_day - 1 };
        let res_date = self.sub_days(trunc_day)?;
        Ok(res_date)
    }

    fn round_century(self) -> (r: Result<Self>)
        requires self.wf()
        ensures ({
            let (y, m, d) = civil(self.0 as int);
            let base = (y - 1) / 100 * 100 + 1;
            let target = if y - base >= 50 { base + 100 } else { base };
            &&& target <= 9999 ==> r.is_ok() && r.unwrap().0 == dn(target, 1, 1)
            &&& target > 9999 ==> r.is_err()
        })
    {
        proof { lemma_civil_props(self.0 as int); }
        let input_year = self.year().unwrap();
        if input_year > DATE_MAX_YEAR - 50 {
            return Err(Error::DateOutOfRange);
        }

        let mut century = input_year / 100;
        if input_year % 100 == 0 {
            century -= 1;
        } else if input_year % 100 > 50 {
            century += 1;
        }

        let res_year = century * 100 + 1;
        Ok(unsafe { Date::from_ymd_unchecked(res_year, 1, 1) })
    }

    fn round_quarter(self) -> (r: Result<Self>)
        requires self.wf()
        ensures ({
            let (y, m, d) = civil(self.0 as int);
            let q0 = (m - 1) / 3 * 3 + 1;          // first month of the quarter
            let up = m > q0 + 1 || (m == q0 + 1 && d >= 16);
            let tm = if up { q0 + 3 } else { q0 };
            let (ty, tmm) = if tm > 12 { (y + 1, 1int) } else { (y, tm) };
            &&& ty <= 9999 ==> r.is_ok() && r.unwrap().0 == dn(ty, tmm, 1)
            &&& ty > 9999 ==> r.is_err()
        })
    {
        proof { lemma_civil_props(self.0 as int); }
        const QUARTER_ROUND_MONTH: [u32; 12] = [1, 4, 4, 4, 7, 7, 7, 10, 10, 10, 1, 1];
        const QUARTER_TRUNC_MONTH: [u32; 12] = [1, 1, 4, 4, 4, 7, 7, 7, 10, 10, 10, 1];

        let (mut year, month, day) = self.extract();
        let is_round = day >= ROUNDS_UP_DAY;

        let index = month as usize - 1;
        let quarter_month = if is_round {
            if month >= 11 {
                year += 1;
            }
            QUARTER_ROUND_MONTH[index]
        } else {
            if month == 12 {
                year += 1;
            }
            QUARTER_TRUNC_MONTH[index]
        };

        if year > DATE_MAX_YEAR {
            return Err(Error::DateOutOfRange);
        }

        Ok(unsafe { Date::from_ymd_unchecked(year, quarter_month, 1) })
    }
}
}
fn main() {}
