use sqldatetime::*;
use std::panic::catch_unwind;
fn main() {
    // D1 blank runs
    for n in [255usize, 256, 257, 300, 600] {
        let pic = " ".repeat(n);
        let r = catch_unwind(|| {
            let f = Formatter::try_new(&pic);
            match f { Ok(f) => { let mut s = String::new(); f.format(Date::try_from_ymd(2000,1,1).unwrap(), &mut s).map(|_| s.len()) .map_err(|e| format!("{:?}", e)) } Err(e) => Err(format!("{:?}", e)) }
        });
        println!("D1 blanks={} -> {:?}", n, r.map_err(|_| "PANIC"));
    }
    // D2
    for p in ["da", "DA", "DAM", "dam", "DY", "day", "D", "DAY"] {
        println!("D2 try_new({:?}) ok={}", p, Formatter::try_new(p).is_ok());
    }
    println!("D2 format 'da' => {:?}", Date::try_from_ymd(2000,1,1).unwrap().format("da").map(|d| d.to_string()));
    // D3
    for inp in ["-", ",", "/", "+", "!"] {
        let r = catch_unwind(|| Date::parse(inp, "D").map(|d| d.days()).map_err(|e| format!("{:?}", e)));
        println!("D3 parse({:?},\"D\") -> {:?}", inp, r.map_err(|_| "PANIC"));
    }
    // D4
    let bytes = bincode::serialize(&i32::MAX).unwrap();
    let d: Result<Date, _> = bincode::deserialize(&bytes);
    println!("D4 bincode i32::MAX -> {:?}", d.map(|d| d.days()));
    // D5
    println!("D5 IntervalDT parse .9999995 FF7 -> {:?}", IntervalDT::parse("+1 00:00:00.9999995", "DD HH24:MI:SS.FF7").map(|i| i.usecs()));
    println!("D5 Time parse .9999995 FF7 -> {:?}", Time::parse("00:00:00.9999995", "HH24:MI:SS.FF7").map(|i| i.usecs()));
    println!("D5 Timestamp parse -> {:?}", Timestamp::parse("2000-01-01 00:00:00.9999995", "YYYY-MM-DD HH24:MI:SS.FF7").map(|i| i.usecs()));
    // D6: oracle add_days rounding near half second at large magnitude
    let base = OracleDate::MAX.sub_days(400.0).unwrap();
    let mut bad = 0; let mut shown = 0;
    for k in 0..2_000_000u64 {
        // days such that timestamp fraction is close to .5 s
        let us_off: i64 = 499_900 + (k as i64 % 200);  // 0.4999 .. 0.5001 s
        let secs: i64 = (k as i64 / 200) * 7 + 3;
        let off = secs * 1_000_000 + us_off;
        let days = off as f64 / 86_400_000_000.0;
        let ts = Timestamp::from(base).add_days(days).unwrap();
        let r = base.add_days(days).unwrap();
        let frac = ts.usecs().rem_euclid(1_000_000);
        let floor = ts.usecs() - frac;
        let expect = if frac > 500_000 { floor + 1_000_000 } else if frac < 500_000 { floor } else { -1 };
        if expect != -1 && r.usecs() != expect { bad += 1; if shown < 3 { shown += 1; println!("D6 base={} days={:e} ts={} got={} expect={}", base.usecs(), days, ts.usecs(), r.usecs(), expect); } }
    }
    println!("D6 mismatches: {}", bad);
}
