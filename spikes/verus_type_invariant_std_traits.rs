use vstd::prelude::*;
use std::cmp::Ordering;
verus! {
#[derive(Copy, Clone)] pub struct Date(i32);
#[derive(Copy, Clone)] pub struct Timestamp(i64);

impl Date {
    #[verifier::type_invariant]
    pub closed spec fn wf(self) -> bool { -719162 <= self.0 <= 2932896 }
    pub closed spec fn v(self) -> int { self.0 as int }
    pub const unsafe fn from_days_unchecked(days: i32) -> (r: Self) requires -719162 <= days <= 2932896 ensures r.v() == days { Date(days) }
    pub const fn days(self) -> (r: i32) ensures r == self.v(), -719162 <= r <= 2932896 { proof { use_type_invariant(self); } self.0 }
    pub const fn and_zero_time(self) -> (r: Timestamp) ensures r.v() == self.v() * 86400000000 {
        proof { use_type_invariant(self); }
        Timestamp(self.0 as i64 * 86400000000)
    }
}
impl Timestamp {
    #[verifier::type_invariant]
    pub closed spec fn wf(self) -> bool { -62135596800000000 <= self.0 <= 253402300799999999 }
    pub closed spec fn v(self) -> int { self.0 as int }
    pub const fn usecs(self) -> (r: i64) ensures r == self.v() { self.0 }
}

impl vstd::std_specs::convert::FromSpecImpl<Date> for Timestamp {
    open spec fn obeys_from_spec() -> bool { false }
    open spec fn from_spec(d: Date) -> Timestamp { arbitrary() }
}
impl From<Date> for Timestamp {
    fn from(date: Date) -> (r: Self) ensures r.v() == date.v() * 86400000000 {
        date.and_zero_time()
    }
}
impl vstd::std_specs::cmp::PartialEqSpecImpl<Timestamp> for Date {
    open spec fn obeys_eq_spec() -> bool { false }
    open spec fn eq_spec(&self, other: &Timestamp) -> bool { arbitrary() }
}
impl vstd::std_specs::cmp::PartialOrdSpecImpl<Timestamp> for Date {
    open spec fn obeys_partial_cmp_spec() -> bool { false }
    open spec fn partial_cmp_spec(&self, other: &Timestamp) -> Option<Ordering> { arbitrary() }
}
impl PartialEq<Timestamp> for Date {
    fn eq(&self, other: &Timestamp) -> (r: bool) ensures r == (self.v() * 86400000000 == other.v()) {
        self.and_zero_time().usecs() == other.usecs()
    }
}
impl PartialOrd<Timestamp> for Date {
    fn partial_cmp(&self, other: &Timestamp) -> (r: Option<Ordering>) {
        Some(self.and_zero_time().usecs().cmp(&other.usecs()))
    }
}
fn user(d: Date) -> (r: Timestamp) ensures r.v() == d.v() * 86400000000 { Timestamp::from(d) }
}
fn main() {}
