use vstd::prelude::*;
verus! {
pub const USECONDS_PER_DAY: i64 = 86_400_000_000;
pub const USECONDS_PER_HOUR: i64 = 3_600_000_000;
pub const USECONDS_PER_MINUTE: i64 = 60_000_000;
pub const USECONDS_PER_SECOND: i64 = 1_000_000;
pub const TIMESTAMP_MIN: i64 = -62135596800000000;
pub const TIMESTAMP_MAX: i64 = 253402300799999999;
pub assume_specification [i64::is_negative] (x: i64) -> (r: bool) ensures r == (x < 0);
pub type Result<T> = std::result::Result<T, Error>;
#[derive(Debug)]
pub enum Error { DateOutOfRange }
#[derive(Copy, Clone)] pub struct Date(pub i32);
#[derive(Copy, Clone)] pub struct Time(pub i64);
#[derive(Copy, Clone)] pub struct Timestamp(pub i64);
#[derive(Copy, Clone)] pub struct ODate(pub Timestamp);

pub open spec fn day() -> int { 86400000000 }
pub open spec fn fl(us: int, unit: int) -> int { us - us % unit }   // floor to a multiple of unit (Euclidean)

impl Date {
    pub open spec fn wf(self) -> bool { -719162 <= self.0 <= 2932896 }
    pub const fn days(self) -> (r: i32) ensures r == self.0 { self.0 }
    pub const unsafe fn from_days_unchecked(days: i32) -> (r: Self) ensures r.0 == days { Date(days) }
    pub const fn try_from_days(days: i32) -> (r: Result<Self>)
        ensures r.is_ok() <==> (-719162 <= days <= 2932896), r.is_ok() ==> r.unwrap().0 == days
    { if days >= -719162 && days <= 2932896 { Ok(unsafe { Date::from_days_unchecked(days) }) } else { Err(Error::DateOutOfRange) } }
    pub const fn add_days(self, days: i32) -> (r: Result<Date>)
        requires self.wf()
        ensures r.is_ok() <==> (-719162 <= self.0 + days <= 2932896), r.is_ok() ==> r.unwrap().0 == self.0 + days
    {
        let result = self.days().checked_add(days);
        match result {
            Some(d) => Date::try_from_days(d),
            None => Err(Error::DateOutOfRange),
        }
    }
    pub const fn and_time(self, time: Time) -> (r: Timestamp) requires self.wf(), time.wf() ensures r.0 == self.0 as int * 86400000000 + time.0, r.wf() {
        Timestamp::new(self, time)
    }
}
impl Time {
    pub open spec fn wf(self) -> bool { 0 <= self.0 < 86400000000 }
    pub const fn usecs(self) -> (r: i64) ensures r == self.0 { self.0 }
    pub const unsafe fn from_usecs_unchecked(usecs: i64) -> (r: Self) ensures r.0 == usecs { Time(usecs) }
    pub const unsafe fn from_hms_unchecked(hour: u32, minute: u32, sec: u32, usec: u32) -> (r: Time)
        requires hour <= 24, minute <= 60, sec <= 60, usec <= 1000000
        ensures r.0 == hour as int * 3600000000 + minute as int * 60000000 + sec as int * 1000000 + usec
    {
        let time = hour as i64 * USECONDS_PER_HOUR
            + minute as i64 * USECONDS_PER_MINUTE
            + sec as i64 * USECONDS_PER_SECOND
            + usec as i64;
        Time(time)
    }
    pub const fn extract(self) -> (r: (u32, u32, u32, u32))
        requires self.wf()
        ensures r.0 < 24, r.1 < 60, r.2 < 60, r.3 < 1000000,
            self.0 == r.0 as int * 3600000000 + r.1 as int * 60000000 + r.2 as int * 1000000 + r.3
    {
        let mut time = self.0;
        let hour = (time / USECONDS_PER_HOUR) as u32;
        time -= hour as i64 * USECONDS_PER_HOUR;
        let minute = (time / USECONDS_PER_MINUTE) as u32;
        time -= minute as i64 * USECONDS_PER_MINUTE;
        let sec = (time / USECONDS_PER_SECOND) as u32;
        time -= sec as i64 * USECONDS_PER_SECOND;
        let usec = time as u32;
        (hour, minute, sec, usec)
    }
}
impl Timestamp {
    pub open spec fn wf(self) -> bool { -62135596800000000 <= self.0 <= 253402300799999999 }
    pub const fn new(date: Date, time: Time) -> (r: Self)
        requires date.wf(), time.wf()
        ensures r.0 == date.0 as int * 86400000000 + time.0, r.wf()
    {
        let usecs = date.days() as i64 * USECONDS_PER_DAY + time.usecs();
        Timestamp(usecs)
    }
    pub const fn usecs(self) -> (r: i64) ensures r == self.0 { self.0 }
    pub const unsafe fn from_usecs_unchecked(usecs: i64) -> (r: Self) ensures r.0 == usecs { Timestamp(usecs) }
    pub fn date(self) -> (r: Date)
        requires self.wf()
        ensures r.wf(), r.0 == self.0 as int / 86400000000
    {
        let date = if self.0.is_negative() && self.0 % USECONDS_PER_DAY != 0 {
            self.0 / USECONDS_PER_DAY - 1
        } else {
            self.0 / USECONDS_PER_DAY
        };
        unsafe { Date::from_days_unchecked(date as i32) }
    }
    pub fn time(self) -> (r: Time)
        requires self.wf()
        ensures r.wf(), r.0 == self.0 as int % 86400000000
    {
        let temp_time = self.0 % USECONDS_PER_DAY;
        if temp_time.is_negative() {
            unsafe { Time::from_usecs_unchecked(temp_time as i64 + USECONDS_PER_DAY) }
        } else {
            unsafe { Time::from_usecs_unchecked(temp_time as i64) }
        }
    }
    fn round_hour(self) -> (r: Result<Self>)
        requires self.wf()
        ensures ({
            let us = self.0 as int;
            let lo = fl(us, 3600000000);
            let target = if us - lo >= 1800000000 { lo + 3600000000 } else { lo };
            &&& target <= 253402300799999999 ==> r.is_ok() && r.unwrap().0 == target
            &&& target > 253402300799999999 ==> r.is_err()
        })
    {
        let mut date = self.date();
        let (mut hour, minute, _, _) = self.time().extract();
        if minute >= 30 {
            if hour >= 23 {
                date = date.add_days(1)?;
                hour = 0;
            } else {
                hour += 1
            }
        }
        Ok(date.and_time(unsafe { Time::from_hms_unchecked(hour as u32, 0, 0, 0) }))
    }
    fn round_minute(self) -> (r: Result<Self>)
        requires self.wf()
        ensures ({
            let us = self.0 as int;
            let lo = fl(us, 60000000);
            let target = if us - lo >= 30000000 { lo + 60000000 } else { lo };
            &&& target <= 253402300799999999 ==> r.is_ok() && r.unwrap().0 == target
            &&& target > 253402300799999999 ==> r.is_err()
        })
    {
        let mut date = self.date();
        let (mut hour, mut minute, sec, _) = self.time().extract();
        if sec >= 30 {
            if minute == 59 {
                if hour == 23 {
                    date = date.add_days(1)?;
                    hour = 0;
                } else {
                    hour += 1;
                }
                minute = 0;
            } else {
                minute += 1;
            }
        }

        Ok(date.and_time(unsafe { Time::from_hms_unchecked(hour, minute, 0, 0) }))
    }
}
impl ODate {
    pub open spec fn wf(self) -> bool { self.0.wf() && self.0.0 % 1000000 == 0 }
    fn from_ts(timestamp: Timestamp) -> (r: Self)
        requires timestamp.wf()
        ensures r.wf(), r.0.0 == fl(timestamp.0 as int, 1000000)
    {
        proof {
            let u = timestamp.0 as int;
            if u < 0 {
                let a = -u;
                assert(a == (a / 1000000) * 1000000 + a % 1000000);
                assert(u % 1000000 == (if a % 1000000 == 0 { 0int } else { 1000000 - a % 1000000 }));
            }
        }
        let usecs = timestamp.usecs();
        let temp = usecs / USECONDS_PER_SECOND * USECONDS_PER_SECOND;
        let result = if usecs < 0 && temp > usecs {
            temp - USECONDS_PER_SECOND
        } else {
            temp
        };

        unsafe { ODate(Timestamp::from_usecs_unchecked(result)) }
    }
    pub const fn new(date: Date, time: Time) -> (r: Self)
        requires date.wf(), time.wf()
        ensures r.wf(), r.0.0 == date.0 as int * 86400000000 + fl(time.0 as int, 1000000)
    {
        let time = if time.usecs() % USECONDS_PER_SECOND != 0 {
            unsafe {
                Time::from_usecs_unchecked(time.usecs() / USECONDS_PER_SECOND * USECONDS_PER_SECOND)
            }
        } else {
            time
        };
        ODate(Timestamp::new(date, time))
    }
}
}
fn main() {}
