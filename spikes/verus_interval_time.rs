use vstd::prelude::*;
verus! {
pub const MONTHS_PER_YEAR: u32 = 12;
pub const HOURS_PER_DAY: u32 = 24;
pub const MINUTES_PER_HOUR: u32 = 60;
pub const SECONDS_PER_MINUTE: u32 = 60;
pub const USECONDS_MAX: u32 = 999_999;
pub const USECONDS_PER_DAY: i64 = 86_400_000_000;
pub const USECONDS_PER_HOUR: i64 = 3_600_000_000;
pub const USECONDS_PER_MINUTE: i64 = 60_000_000;
pub const USECONDS_PER_SECOND: i64 = 1_000_000;
const INTERVAL_MAX_YEAR: i32 = 178_000_000;
const INTERVAL_MAX_DAY: i32 = 100_000_000;
pub const INTERVAL_MAX_MONTH: i32 = 2136000000;
pub const INTERVAL_MAX_USECONDS: i64 = 8640000000000000000;

pub assume_specification [i32::is_negative] (x: i32) -> (r: bool) ensures r == (x < 0);
pub assume_specification [i64::is_negative] (x: i64) -> (r: bool) ensures r == (x < 0);
pub assume_specification [i64::abs] (x: i64) -> (r: i64) requires x > i64::MIN ensures r == (if x >= 0 { x as int } else { -x });

pub type Result<T> = std::result::Result<T, Error>;
#[derive(Debug)]
pub enum Error { DateOutOfRange, TimeOutOfRange, IntervalOutOfRange, InvalidMonth, InvalidMinute, InvalidSecond, InvalidFraction }
#[derive(Copy, Clone, PartialEq, Eq)]
pub enum Sign { Positive = 1, Negative = -1 }
use Sign::{Negative, Positive};

#[derive(Copy, Clone)] pub struct IntervalYM(pub i32);
#[derive(Copy, Clone)] pub struct IntervalDT(pub i64);
#[derive(Copy, Clone)] pub struct Time(pub i64);

pub open spec fn emod(a: int, b: int) -> int { a % b }

impl IntervalYM {
    pub open spec fn wf(self) -> bool { -2136000000 <= self.0 <= 2136000000 }
    pub const unsafe fn from_ym_unchecked(year: u32, month: u32) -> (r: Self)
        requires year as int * 12 + month <= 2147483647
        ensures r.0 == year as int * 12 + month
    {
        IntervalYM((year * MONTHS_PER_YEAR + month) as i32)
    }
    pub const fn try_from_ym(year: u32, month: u32) -> (r: Result<Self>)
        ensures
            (month < 12 && year as int * 12 + month <= 2136000000) <==> r.is_ok(),
            r.is_ok() ==> r.unwrap().0 == year as int * 12 + month,
            (year > 178000000 || (year == 178000000 && month != 0)) ==> r == Err::<IntervalYM, Error>(Error::IntervalOutOfRange),
            (year < 178000000 && month >= 12) ==> r == Err::<IntervalYM, Error>(Error::InvalidMonth),
    {
        if year >= INTERVAL_MAX_YEAR as u32 && (year != INTERVAL_MAX_YEAR as u32 || month != 0) {
            return Err(Error::IntervalOutOfRange);
        }

        if month >= MONTHS_PER_YEAR {
            return Err(Error::InvalidMonth);
        }

        Ok(unsafe { IntervalYM::from_ym_unchecked(year, month) })
    }
    pub const fn extract(self) -> (r: (Sign, u32, u32))
        requires self.wf()
        ensures r.2 < 12, (r.0 == Positive) <==> self.0 >= 0,
            (if r.0 == Positive { self.0 == r.1 as int * 12 + r.2 } else { self.0 == -(r.1 as int * 12 + r.2) })
    {
        if self.0.is_negative() {
            let year = -self.0 as u32 / MONTHS_PER_YEAR;
            (Negative, year, -self.0 as u32 - year * MONTHS_PER_YEAR)
        } else {
            let year = self.0 as u32 / MONTHS_PER_YEAR;
            (Positive, year, self.0 as u32 - year * MONTHS_PER_YEAR)
        }
    }
}

impl IntervalDT {
    pub open spec fn wf(self) -> bool { -8640000000000000000 <= self.0 <= 8640000000000000000 }
    pub const fn usecs(self) -> (r: i64) ensures r == self.0 { self.0 }
    pub const unsafe fn from_usecs_unchecked(usecs: i64) -> (r: Self) ensures r.0 == usecs { IntervalDT(usecs) }
    pub const fn negate(self) -> (r: IntervalDT) requires self.wf() ensures r.0 == -self.0, r.wf() {
        unsafe { IntervalDT::from_usecs_unchecked(-self.usecs()) }
    }
    pub const fn extract(self) -> (r: (Sign, u32, u32, u32, u32, u32))
        requires self.wf()
        ensures r.2 < 24, r.3 < 60, r.4 < 60, r.5 < 1000000, (r.0 == Positive) <==> self.0 >= 0,
            self.0 == (if r.0 == Positive { 1int } else { -1int }) *
                (r.1 as int * 86400000000 + r.2 as int * 3600000000 + r.3 as int * 60000000 + r.4 as int * 1000000 + r.5)
    {
        let (sign, day, mut time) = if self.0.is_negative() {
            let day = -self.0 / USECONDS_PER_DAY;
            (Negative, day, -self.0 - day * USECONDS_PER_DAY)
        } else {
            let day = self.0 / USECONDS_PER_DAY;
            (Positive, day, self.0 - day * USECONDS_PER_DAY)
        };

        let hour = time / USECONDS_PER_HOUR;
        time -= hour * USECONDS_PER_HOUR;

        let minute = time / USECONDS_PER_MINUTE;
        time -= minute * USECONDS_PER_MINUTE;

        let sec = time / USECONDS_PER_SECOND;
        let usec = time - sec * USECONDS_PER_SECOND;

        (
            sign,
            day as u32,
            hour as u32,
            minute as u32,
            sec as u32,
            usec as u32,
        )
    }
}

impl Time {
    pub open spec fn wf(self) -> bool { 0 <= self.0 < 86400000000 }
    pub const fn usecs(self) -> (r: i64) ensures r == self.0 { self.0 }
    pub const unsafe fn from_usecs_unchecked(usecs: i64) -> (r: Self) ensures r.0 == usecs { Time(usecs) }
    pub const fn add_interval_dt(self, interval: IntervalDT) -> (r: Time)
        requires self.wf(), interval.wf()
        ensures r.wf(), r.0 == emod(self.0 + interval.0, 86400000000)
    {
        let temp_result = self.usecs() + interval.usecs() % USECONDS_PER_DAY;
        if temp_result >= 0 {
            unsafe { Time::from_usecs_unchecked(temp_result % USECONDS_PER_DAY) }
        } else {
            unsafe { Time::from_usecs_unchecked(temp_result + USECONDS_PER_DAY) }
        }
    }
    pub const fn sub_interval_dt(self, interval: IntervalDT) -> (r: Time)
        requires self.wf(), interval.wf()
        ensures r.wf(), r.0 == emod(self.0 - interval.0, 86400000000)
    {
        self.add_interval_dt(interval.negate())
    }
    pub const fn extract(self) -> (r: (u32, u32, u32, u32))
        requires self.wf()
        ensures r.0 < 24, r.1 < 60, r.2 < 60, r.3 < 1000000,
            self.0 == r.0 as int * 3600000000 + r.1 as int * 60000000 + r.2 as int * 1000000 + r.3
    {
        let mut time = self.0;

        let hour = (time / USECONDS_PER_HOUR) as u32;
        time -= hour as i64 * USECONDS_PER_HOUR;

        let minute = (time / USECONDS_PER_MINUTE) as u32;
        time -= minute as i64 * USECONDS_PER_MINUTE;

        let sec = (time / USECONDS_PER_SECOND) as u32;
        time -= sec as i64 * USECONDS_PER_SECOND;

        let usec = time as u32;

        (hour, minute, sec, usec)
    }
    fn from_interval(interval: IntervalDT) -> (r: Time)
        requires interval.wf()
        ensures r.wf(), r.0 == (if interval.0 >= 0 { interval.0 as int } else { -interval.0 }) % 86400000000
    {
        let usec = interval.usecs().abs() % USECONDS_PER_DAY;
        unsafe { Time::from_usecs_unchecked(usec) }
    }
}
}
fn main() {}
