use vstd::prelude::*;
verus! {
pub assume_specification [i64::is_negative] (x: i64) -> (r: bool) ensures r == (x < 0);
pub assume_specification [i64::abs] (x: i64) -> (r: i64) requires x > i64::MIN ensures r == (if x >= 0 { x as int } else { -x });
const USECONDS_PER_DAY: i64 = 86_400_000_000;

fn f(x: i64) -> (r: i64)
    requires -1000000000000000000 <= x <= 1000000000000000000
    ensures 0 <= r < 86_400_000_000, (x - r) % 86_400_000_000 == 0
{
    let t = x % USECONDS_PER_DAY;
    if t.is_negative() { t + USECONDS_PER_DAY } else { t }
}

fn g(x: i32) -> (r: i32)
    requires -1000000 <= x <= 1000000
    ensures r == if x >= 0 { x / 7 } else { -((-x) / 7) }
{
    x / 7
}

fn h(x: i32) -> (r: u32)
    requires -2136000000 <= x < 0
    ensures r == -x
{
    -x as u32
}
fn k(x: i64) -> (r: i64)
    requires -1000000000000000000 <= x <= 1000000000000000000
    ensures r == if x >= 0 { x as int } else { -x }
{
    x.abs()
}
}
fn main() {}
