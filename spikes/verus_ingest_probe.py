#!/usr/bin/env python3
"""Design-phase probe: apply the extraction rewrite list of DESIGN.md §2.1 to whole
source files of /repo and see whether Verus can ingest (type-check + encode) them.
Output: verus_ingest_result.rs (next to this file) was produced by these steps on the
pinned tree; `verus verus_ingest_result.rs` reports only verification obligations
(overflow / index / std-trait spec postconditions), no unsupported-feature errors.

Steps (see DESIGN.md §2.1 for the numbered list):
  strip #[cfg(test)] mod tests, comments, `use` lines, #[inline]/#[allow]/#[cfg_attr]/#[repr]
  filter #[derive(..)] to Copy, Clone, PartialEq, Eq, PartialOrd, Ord
  pub(crate) -> pub ; `const` -> `pub const` ; tuple struct fields -> pub
  `x %= y;` -> `x = x % y;`
  `pub const N: T = <expr with call>;` -> `pub exec const N: T ensures true { <expr> }`
  `use crate::date::WeekDay::*;` -> `use WeekDay::*;` (same for Month)
  drop: format<>, parse<>, now(), *_f64, add_days/sub_days(f64), sub_date -> f64,
        second(), the_month_day_of_days, TryFrom<Time>, DateTimeFormat impls
  #[verifier::external] on `type DateSubMethod` and `ISO_YEAR_TABLE`
  #[verifier::external_body] on the 7 fn-pointer / nested-fn functions of Date
  oracle.rs wrapped in `pub mod oracle { use super::*; use super::Date as SqlDate; ... }`
  fixed prelude: Error enum (unit variants), AmPm, NaiveDateTime, Result alias,
        assume_specification for i32/i64::is_negative and i64::abs,
        DateTime/Trunc/Round trait declarations copied from lib.rs
"""
