use vstd::prelude::*;
use std::cmp::Ordering;
use std::convert::TryFrom;
use std::ops::Neg;
verus! {
pub type Result<T> = std::result::Result<T, Error>;
#[derive(Debug)]
pub enum Error { DateOutOfRange, TimeOutOfRange, IntervalOutOfRange, InvalidNumber, InvalidMonth, InvalidDay, InvalidMinute, InvalidSecond, InvalidFraction, InvalidDate, NumericOverflow, DivideByZero }
pub enum AmPm { Am, Pm }
pub struct NaiveDateTime { pub year: i32, pub month: u32, pub day: u32, pub hour: u32, pub minute: u32, pub sec: u32, pub usec: u32, pub ampm: Option<AmPm>, pub negative: bool }
impl NaiveDateTime { pub const fn new() -> Self { NaiveDateTime { year: 1, month: 0, day: 1, hour: 0, minute: 0, sec: 0, usec: 0, ampm: None, negative: false } } }
use Sign::{Negative, Positive};
pub assume_specification [i32::is_negative] (x: i32) -> (r: bool) ensures r == (x < 0);
pub assume_specification [i64::is_negative] (x: i64) -> (r: bool) ensures r == (x < 0);
pub assume_specification [i64::abs] (x: i64) -> (r: i64) requires x > i64::MIN ensures r == (if x >= 0 { x as int } else { -x });
pub trait DateTime {
    fn year(&self) -> Option<i32>;
    fn month(&self) -> Option<i32>;
    fn day(&self) -> Option<i32>;
    fn hour(&self) -> Option<i32>;
    fn minute(&self) -> Option<i32>;
    fn date(&self) -> Option<Date>;
}
pub trait Trunc: Sized {
    fn trunc_century(self) -> Result<Self>;
    fn trunc_year(self) -> Result<Self>;
    fn trunc_iso_year(self) -> Result<Self>;
    fn trunc_quarter(self) -> Result<Self>;
    fn trunc_month(self) -> Result<Self>;
    fn trunc_week(self) -> Result<Self>;
    fn trunc_iso_week(self) -> Result<Self>;
    fn trunc_month_start_week(self) -> Result<Self>;
    fn trunc_day(self) -> Result<Self>;
    fn trunc_sunday_start_week(self) -> Result<Self>;
    fn trunc_hour(self) -> Result<Self>;
    fn trunc_minute(self) -> Result<Self>;
}
pub trait Round: Sized {
    fn round_century(self) -> Result<Self>;
    fn round_year(self) -> Result<Self>;
    fn round_iso_year(self) -> Result<Self>;
    fn round_quarter(self) -> Result<Self>;
    fn round_month(self) -> Result<Self>;
    fn round_week(self) -> Result<Self>;
    fn round_iso_week(self) -> Result<Self>;
    fn round_month_start_week(self) -> Result<Self>;
    fn round_day(self) -> Result<Self>;
    fn round_sunday_start_week(self) -> Result<Self>;
    fn round_hour(self) -> Result<Self>;
    fn round_minute(self) -> Result<Self>;
}
pub const MONTHS_PER_YEAR: u32 = 12;
pub const HOURS_PER_DAY: u32 = 24;
pub const MINUTES_PER_HOUR: u32 = 60;
pub const SECONDS_PER_MINUTE: u32 = 60;

pub const USECONDS_MAX: u32 = 999_999;
pub const USECONDS_PER_DAY: i64 = 86_400_000_000;
pub const USECONDS_PER_HOUR: i64 = 3_600_000_000;
pub const USECONDS_PER_MINUTE: i64 = 60_000_000;
pub const USECONDS_PER_SECOND: i64 = 1_000_000;

pub const DATE_MIN_YEAR: i32 = 1;
pub const DATE_MAX_YEAR: i32 = 9999;

pub exec const UNIX_EPOCH_JULIAN: i32 ensures true { date2julian(1970, 1, 1) }

pub exec const DATE_MIN_JULIAN: i32 ensures true { date2julian(DATE_MIN_YEAR, 1, 1) }
pub exec const DATE_MAX_JULIAN: i32 ensures true { date2julian(DATE_MAX_YEAR, 12, 31) }

pub exec const TIMESTAMP_MIN: i64 ensures true { (DATE_MIN_JULIAN - UNIX_EPOCH_JULIAN) as i64 * USECONDS_PER_DAY }
pub exec const TIMESTAMP_MAX: i64 ensures true { (date2julian(10000, 1, 1) - UNIX_EPOCH_JULIAN) as i64 * USECONDS_PER_DAY - 1 }

pub const SUM_OF_DAYS_TABLE: [[u32; 12]; 2] = [
    [0, 31, 59, 90, 120, 151, 181, 212, 243, 273, 304, 334],
    [0, 31, 60, 91, 121, 152, 182, 213, 244, 274, 305, 335],
];
pub const fn date2julian(year: i32, month: u32, day: u32) -> i32 {
    let (y, m) = if month > 2 {
        (year + 4800, month + 1)
    } else {
        (year + 4799, month + 13)
    };

    let century = y / 100;

    let mut julian = y * 365 - 32167;
    julian += y / 4 - century + century / 4;
    julian += 7834 * m as i32 / 256 + day as i32;

    julian
}
pub const fn julian2date(julian_day: i32) -> (i32, u32, u32) {
    let mut julian = julian_day as u32 + 32044;
    let mut quad = julian / 146097;
    let extra = (julian - quad * 146097) * 4 + 3;
    julian += 60 + quad * 3 + extra / 146097;
    quad = julian / 1461;
    julian -= quad * 1461;

    let mut y: i32 = (julian * 4 / 1461) as i32;
    julian = if y != 0 {
        (julian + 305) % 365 + 123
    } else {
        (julian + 306) % 366 + 123
    };
    y += (quad * 4) as i32;
    let year = y - 4800;
    quad = julian * 2141 / 65_536;

    let day = julian - 7834 * quad / 256;
    let month = (quad + 10) % MONTHS_PER_YEAR as u32 + 1;

    (year, month, day)
}
pub const fn is_valid_date(date: i32) -> bool {
    date >= (DATE_MIN_JULIAN - UNIX_EPOCH_JULIAN) && date <= (DATE_MAX_JULIAN - UNIX_EPOCH_JULIAN)
}
pub const fn is_valid_timestamp(timestamp: i64) -> bool {
    timestamp >= TIMESTAMP_MIN && timestamp <= TIMESTAMP_MAX
}
pub const fn is_valid_time(time: i64) -> bool {
    time >= 0 && time < USECONDS_PER_DAY
}
pub const fn is_leap_year(year: i32) -> bool {
    year % 4 == 0 && ((year % 100) != 0 || (year % 400) == 0)
}
pub const fn days_of_month(year: i32, month: u32) -> u32 {
    const DAY_TABLE: [[u32; 13]; 2] = [
        [0, 31, 28, 31, 30, 31, 30, 31, 31, 30, 31, 30, 31],
        [0, 31, 29, 31, 30, 31, 30, 31, 31, 30, 31, 30, 31],
    ];

    DAY_TABLE[is_leap_year(year) as usize][month as usize]
}
pub const fn the_day_of_year(year: i32, month: u32, day: u32) -> u32 {
    SUM_OF_DAYS_TABLE[is_leap_year(year) as usize][month as usize - 1] + day
}



pub const INTERVAL_MAX_YEAR: i32 = 178_000_000;
pub const INTERVAL_MAX_DAY: i32 = 100_000_000;

pub exec const INTERVAL_MAX_MONTH: i32 ensures true { INTERVAL_MAX_YEAR * (MONTHS_PER_YEAR as i32) }
pub const INTERVAL_MAX_USECONDS: i64 = INTERVAL_MAX_DAY as i64 * USECONDS_PER_DAY;

#[derive(PartialEq, Eq, Copy, Clone)]
pub enum Sign {
    Positive = 1,
    Negative = -1,
}
#[derive(Copy, Clone, Eq, PartialEq, Ord, PartialOrd)]
pub struct IntervalYM(pub i32);

impl IntervalYM {
    pub exec const MIN: Self ensures true { unsafe { IntervalYM::from_ym_unchecked(178000000, 0).negate() } }
    pub exec const MAX: Self ensures true { unsafe { IntervalYM::from_ym_unchecked(178000000, 0) } }
    pub exec const ZERO: Self ensures true { IntervalYM(0) }
    pub const unsafe fn from_ym_unchecked(year: u32, month: u32) -> Self {
        IntervalYM((year * MONTHS_PER_YEAR + month) as i32)
    }
    pub const unsafe fn from_months_unchecked(months: i32) -> Self {
        IntervalYM(months)
    }
    pub const fn try_from_ym(year: u32, month: u32) -> Result<Self> {
        if year >= INTERVAL_MAX_YEAR as u32 && (year != INTERVAL_MAX_YEAR as u32 || month != 0) {
            return Err(Error::IntervalOutOfRange);
        }

        if month >= MONTHS_PER_YEAR {
            return Err(Error::InvalidMonth);
        }

        Ok(unsafe { IntervalYM::from_ym_unchecked(year, month) })
    }
    pub const fn try_from_months(months: i32) -> Result<Self> {
        if IntervalYM::is_valid_months(months) {
            Ok(unsafe { IntervalYM::from_months_unchecked(months) })
        } else {
            Err(Error::IntervalOutOfRange)
        }
    }
    pub const fn is_valid_ym(year: u32, month: u32) -> bool {
        if year >= INTERVAL_MAX_YEAR as u32 && (year != INTERVAL_MAX_YEAR as u32 || month != 0) {
            return false;
        }

        if month >= MONTHS_PER_YEAR {
            return false;
        }

        true
    }
    pub const fn is_valid_months(months: i32) -> bool {
        months <= INTERVAL_MAX_MONTH && months >= -INTERVAL_MAX_MONTH
    }
    pub const fn months(self) -> i32 {
        self.0
    }
    pub const fn extract(self) -> (Sign, u32, u32) {
        if self.0.is_negative() {
            let year = -self.0 as u32 / MONTHS_PER_YEAR;
            (Negative, year, -self.0 as u32 - year * MONTHS_PER_YEAR)
        } else {
            let year = self.0 as u32 / MONTHS_PER_YEAR;
            (Positive, year, self.0 as u32 - year * MONTHS_PER_YEAR)
        }
    }
    
    
    pub const fn negate(self) -> IntervalYM {
        unsafe { IntervalYM::from_months_unchecked(-self.months()) }
    }
    pub const fn add_interval_ym(self, interval: IntervalYM) -> Result<IntervalYM> {
        let result = self.months().checked_add(interval.months());
        match result {
            Some(i) => IntervalYM::try_from_months(i),
            None => Err(Error::IntervalOutOfRange),
        }
    }
    pub const fn sub_interval_ym(self, interval: IntervalYM) -> Result<IntervalYM> {
        self.add_interval_ym(interval.negate())
    }
    
    
}

impl From<IntervalYM> for NaiveDateTime {
    fn from(interval: IntervalYM) -> Self {
        let (sign, year, month) = interval.extract();
        let negative = sign == Negative;
        NaiveDateTime {
            year: year as i32,
            month,
            negative,
            ..NaiveDateTime::new()
        }
    }
}

impl TryFrom<NaiveDateTime> for IntervalYM {
    type Error = Error;
    fn try_from(dt: NaiveDateTime) -> Result<Self> {
        if dt.negative {
            Ok(-IntervalYM::try_from_ym(-dt.year as u32, dt.month)?)
        } else {
            IntervalYM::try_from_ym(dt.year as u32, dt.month)
        }
    }
}

impl Neg for IntervalYM {
    type Output = IntervalYM;
    fn neg(self) -> Self::Output {
        self.negate()
    }
}

impl DateTime for IntervalYM {
    fn year(&self) -> Option<i32> {
        Some(self.months() / MONTHS_PER_YEAR as i32)
    }
    fn month(&self) -> Option<i32> {
        Some(self.months() % MONTHS_PER_YEAR as i32)
    }
    fn day(&self) -> Option<i32> {
        None
    }
    fn hour(&self) -> Option<i32> {
        None
    }
    fn minute(&self) -> Option<i32> {
        None
    }
    
    fn date(&self) -> Option<Date> {
        None
    }
}
#[derive(Copy, Clone, Eq, PartialEq, PartialOrd, Ord)]
pub struct IntervalDT(pub i64);

impl IntervalDT {
    pub exec const MIN: Self ensures true { unsafe { IntervalDT::from_dhms_unchecked(100000000, 0, 0, 0, 0).negate() } }
    pub exec const MAX: Self ensures true { unsafe { IntervalDT::from_dhms_unchecked(100000000, 0, 0, 0, 0) } }
    pub exec const ZERO: Self ensures true { IntervalDT(0) }
    pub const unsafe fn from_dhms_unchecked(
        day: u32,
        hour: u32,
        minute: u32,
        sec: u32,
        usec: u32,
    ) -> Self {
        let time = hour as i64 * USECONDS_PER_HOUR
            + minute as i64 * USECONDS_PER_MINUTE
            + sec as i64 * USECONDS_PER_SECOND
            + usec as i64;
        let us = day as i64 * USECONDS_PER_DAY + time;
        IntervalDT(us)
    }
    pub const fn try_from_dhms(
        day: u32,
        hour: u32,
        minute: u32,
        sec: u32,
        usec: u32,
    ) -> Result<Self> {
        if day >= INTERVAL_MAX_DAY as u32
            && (day != INTERVAL_MAX_DAY as u32 || hour != 0 || minute != 0 || sec != 0 || usec != 0)
        {
            return Err(Error::IntervalOutOfRange);
        }

        if hour >= HOURS_PER_DAY {
            return Err(Error::TimeOutOfRange);
        }

        if minute >= MINUTES_PER_HOUR {
            return Err(Error::InvalidMinute);
        }

        if sec >= SECONDS_PER_MINUTE {
            return Err(Error::InvalidSecond);
        }

        if usec > USECONDS_MAX {
            return Err(Error::InvalidFraction);
        }

        Ok(unsafe { IntervalDT::from_dhms_unchecked(day, hour, minute, sec, usec) })
    }
    pub const unsafe fn from_usecs_unchecked(usecs: i64) -> Self {
        IntervalDT(usecs)
    }
    pub const fn try_from_usecs(usecs: i64) -> Result<Self> {
        if IntervalDT::is_valid_usecs(usecs) {
            Ok(unsafe { IntervalDT::from_usecs_unchecked(usecs) })
        } else {
            Err(Error::IntervalOutOfRange)
        }
    }
    pub const fn is_valid(day: u32, hour: u32, minute: u32, sec: u32, usec: u32) -> bool {
        if day >= INTERVAL_MAX_DAY as u32
            && (day != INTERVAL_MAX_DAY as u32 || hour != 0 || minute != 0 || sec != 0 || usec != 0)
        {
            return false;
        }

        if hour >= HOURS_PER_DAY {
            return false;
        }

        if minute >= MINUTES_PER_HOUR {
            return false;
        }

        if sec >= SECONDS_PER_MINUTE {
            return false;
        }

        if usec > USECONDS_MAX {
            return false;
        }

        true
    }
    pub const fn is_valid_usecs(usecs: i64) -> bool {
        usecs <= INTERVAL_MAX_USECONDS && usecs >= -INTERVAL_MAX_USECONDS
    }
    pub const fn usecs(self) -> i64 {
        self.0
    }
    pub const fn extract(self) -> (Sign, u32, u32, u32, u32, u32) {
        let (sign, day, mut time) = if self.0.is_negative() {
            let day = -self.0 / USECONDS_PER_DAY;
            (Negative, day, -self.0 - day * USECONDS_PER_DAY)
        } else {
            let day = self.0 / USECONDS_PER_DAY;
            (Positive, day, self.0 - day * USECONDS_PER_DAY)
        };

        let hour = time / USECONDS_PER_HOUR;
        time -= hour * USECONDS_PER_HOUR;

        let minute = time / USECONDS_PER_MINUTE;
        time -= minute * USECONDS_PER_MINUTE;

        let sec = time / USECONDS_PER_SECOND;
        let usec = time - sec * USECONDS_PER_SECOND;

        (
            sign,
            day as u32,
            hour as u32,
            minute as u32,
            sec as u32,
            usec as u32,
        )
    }
    
    
    pub const fn negate(self) -> IntervalDT {
        unsafe { IntervalDT::from_usecs_unchecked(-self.usecs()) }
    }
    pub const fn add_interval_dt(self, interval: IntervalDT) -> Result<IntervalDT> {
        let result = self.usecs().checked_add(interval.usecs());
        match result {
            Some(i) => IntervalDT::try_from_usecs(i),
            None => Err(Error::IntervalOutOfRange),
        }
    }
    pub const fn sub_interval_dt(self, interval: IntervalDT) -> Result<IntervalDT> {
        self.add_interval_dt(interval.negate())
    }
    
    
    pub const fn sub_time(self, time: Time) -> Result<IntervalDT> {
        IntervalDT::try_from_usecs(self.usecs() - time.usecs())
    }
}

impl From<IntervalDT> for NaiveDateTime {
    fn from(interval: IntervalDT) -> Self {
        let (sign, day, hour, minute, sec, usec) = interval.extract();
        let negative = sign == Sign::Negative;
        NaiveDateTime {
            day,
            hour,
            minute,
            sec,
            usec,
            negative,
            ..NaiveDateTime::new()
        }
    }
}

impl TryFrom<NaiveDateTime> for IntervalDT {
    type Error = Error;
    fn try_from(dt: NaiveDateTime) -> Result<Self> {
        if dt.negative {
            Ok(IntervalDT::try_from_dhms(dt.day, dt.hour, dt.minute, dt.sec, dt.usec)?.negate())
        } else {
            IntervalDT::try_from_dhms(dt.day, dt.hour, dt.minute, dt.sec, dt.usec)
        }
    }
}

impl From<Time> for IntervalDT {
    fn from(time: Time) -> Self {
        unsafe { IntervalDT::from_usecs_unchecked(time.usecs()) }
    }
}

impl PartialEq<Time> for IntervalDT {
    fn eq(&self, other: &Time) -> bool {
        self.usecs() == other.usecs()
    }
}

impl PartialOrd<Time> for IntervalDT {
    fn partial_cmp(&self, other: &Time) -> Option<Ordering> {
        Some(self.usecs().cmp(&other.usecs()))
    }
}

impl Neg for IntervalDT {
    type Output = IntervalDT;
    fn neg(self) -> Self::Output {
        self.negate()
    }
}

impl DateTime for IntervalDT {
    fn year(&self) -> Option<i32> {
        None
    }
    fn month(&self) -> Option<i32> {
        None
    }
    fn day(&self) -> Option<i32> {
        Some((self.usecs() / USECONDS_PER_DAY) as i32)
    }
    fn hour(&self) -> Option<i32> {
        let remain_time = self.usecs() % USECONDS_PER_DAY;
        Some((remain_time / USECONDS_PER_HOUR) as i32)
    }
    fn minute(&self) -> Option<i32> {
        let remain_time = self.usecs() % USECONDS_PER_HOUR;
        Some((remain_time / USECONDS_PER_MINUTE) as i32)
    }
    
    fn date(&self) -> Option<Date> {
        None
    }
}


#[derive(Copy, Clone, Ord, PartialOrd, Eq, PartialEq)]
pub struct Time(pub i64);

impl Time {
    pub exec const ZERO: Self ensures true { unsafe { Time::from_hms_unchecked(0, 0, 0, 0) } }
    pub exec const MAX: Self ensures true { unsafe { Time::from_hms_unchecked(23, 59, 59, 999999) } }
    pub const unsafe fn from_hms_unchecked(hour: u32, minute: u32, sec: u32, usec: u32) -> Time {
        let time = hour as i64 * USECONDS_PER_HOUR
            + minute as i64 * USECONDS_PER_MINUTE
            + sec as i64 * USECONDS_PER_SECOND
            + usec as i64;
        Time(time)
    }
    pub const fn try_from_hms(hour: u32, minute: u32, sec: u32, usec: u32) -> Result<Time> {
        if hour >= HOURS_PER_DAY {
            return Err(Error::TimeOutOfRange);
        }

        if minute >= MINUTES_PER_HOUR {
            return Err(Error::InvalidMinute);
        }

        if sec >= SECONDS_PER_MINUTE {
            return Err(Error::InvalidSecond);
        }

        if usec > USECONDS_MAX {
            return Err(Error::InvalidFraction);
        }

        Ok(unsafe { Time::from_hms_unchecked(hour, minute, sec, usec) })
    }
    pub const fn is_valid(hour: u32, minute: u32, sec: u32, usec: u32) -> bool {
        if hour >= HOURS_PER_DAY {
            return false;
        }

        if minute >= MINUTES_PER_HOUR {
            return false;
        }

        if sec >= SECONDS_PER_MINUTE {
            return false;
        }

        if usec > USECONDS_MAX {
            return false;
        }

        true
    }
    pub const fn validate_hms(hour: u32, minute: u32, sec: u32) -> Result<()> {
        if hour >= HOURS_PER_DAY {
            return Err(Error::TimeOutOfRange);
        }

        if minute >= MINUTES_PER_HOUR {
            return Err(Error::InvalidMinute);
        }

        if sec >= SECONDS_PER_MINUTE {
            return Err(Error::InvalidSecond);
        }

        Ok(())
    }
    pub const fn usecs(self) -> i64 {
        self.0
    }
    pub const unsafe fn from_usecs_unchecked(usecs: i64) -> Self {
        Time(usecs)
    }
    pub const fn try_from_usecs(usecs: i64) -> Result<Self> {
        if is_valid_time(usecs) {
            Ok(unsafe { Time::from_usecs_unchecked(usecs) })
        } else {
            Err(Error::TimeOutOfRange)
        }
    }
    pub const fn extract(self) -> (u32, u32, u32, u32) {
        let mut time = self.0;

        let hour = (time / USECONDS_PER_HOUR) as u32;
        time -= hour as i64 * USECONDS_PER_HOUR;

        let minute = (time / USECONDS_PER_MINUTE) as u32;
        time -= minute as i64 * USECONDS_PER_MINUTE;

        let sec = (time / USECONDS_PER_SECOND) as u32;
        time -= sec as i64 * USECONDS_PER_SECOND;

        let usec = time as u32;

        (hour, minute, sec, usec)
    }
    
    
    pub const fn sub_time(self, time: Time) -> IntervalDT {
        unsafe { IntervalDT::from_usecs_unchecked(self.usecs() - time.usecs()) }
    }
    pub const fn add_interval_dt(self, interval: IntervalDT) -> Time {
        let temp_result = self.usecs() + interval.usecs() % USECONDS_PER_DAY;
        if temp_result >= 0 {
            unsafe { Time::from_usecs_unchecked(temp_result % USECONDS_PER_DAY) }
        } else {
            unsafe { Time::from_usecs_unchecked(temp_result + USECONDS_PER_DAY) }
        }
    }
    pub const fn sub_interval_dt(self, interval: IntervalDT) -> Time {
        self.add_interval_dt(interval.negate())
    }
    
    
}

impl From<Time> for NaiveDateTime {
    fn from(time: Time) -> Self {
        let (hour, minute, sec, usec) = time.extract();

        NaiveDateTime {
            hour,
            minute,
            sec,
            usec,
            ..NaiveDateTime::new()
        }
    }
}

impl From<Timestamp> for Time {
    fn from(timestamp: Timestamp) -> Self {
        timestamp.time()
    }
}

impl From<IntervalDT> for Time {
    fn from(interval: IntervalDT) -> Self {
        let usec = interval.usecs().abs() % USECONDS_PER_DAY;
        unsafe { Time::from_usecs_unchecked(usec) }
    }
}

impl PartialEq<IntervalDT> for Time {
    fn eq(&self, other: &IntervalDT) -> bool {
        self.usecs() == other.usecs()
    }
}

impl PartialOrd<IntervalDT> for Time {
    fn partial_cmp(&self, other: &IntervalDT) -> Option<Ordering> {
        Some(self.usecs().cmp(&other.usecs()))
    }
}

impl TryFrom<&NaiveDateTime> for Time {
    type Error = Error;
    fn try_from(dt: &NaiveDateTime) -> Result<Self> {
        Time::validate_hms(dt.hour, dt.minute, dt.sec)?;
        let total_usec = dt.hour as i64 * USECONDS_PER_HOUR
            + dt.minute as i64 * USECONDS_PER_MINUTE
            + dt.sec as i64 * USECONDS_PER_SECOND
            + dt.usec as i64;

        Time::try_from_usecs(total_usec)
    }
}

impl TryFrom<NaiveDateTime> for Time {
    type Error = Error;
    fn try_from(dt: NaiveDateTime) -> Result<Self> {
        Time::try_from(&dt)
    }
}

impl DateTime for Time {
    fn year(&self) -> Option<i32> {
        None
    }
    fn month(&self) -> Option<i32> {
        None
    }
    fn day(&self) -> Option<i32> {
        None
    }
    fn hour(&self) -> Option<i32> {
        Some((self.usecs() / USECONDS_PER_HOUR) as i32)
    }
    fn minute(&self) -> Option<i32> {
        let remain_time = self.usecs() % USECONDS_PER_HOUR;
        Some((remain_time / USECONDS_PER_MINUTE) as i32)
    }
    
    fn date(&self) -> Option<Date> {
        None
    }
}



#[verifier::external]
type DateSubMethod = fn(Date, i32) -> Result<Date>;

pub const UNIX_EPOCH_DOW: WeekDay = WeekDay::Thursday;

pub const ROUNDS_UP_DAY: u32 = 16;

#[verifier::external]
pub const ISO_YEAR_TABLE: [(DateSubMethod, i32); 8] = [
    (sub_to_date, 0), // Unreachable
    (sub_to_date, -1),
    (current_date, 0),
    (sub_to_date, 1),
    (sub_to_date, 2),
    (sub_to_date, 3),
    (sub_to_date, -3),
    (sub_to_date, -2),
];
#[derive(Copy, Clone, PartialOrd, PartialEq)]
pub enum WeekDay {
    Sunday = 1,
    Monday = 2,
    Tuesday = 3,
    Wednesday = 4,
    Thursday = 5,
    Friday = 6,
    Saturday = 7,
}

impl From<usize> for WeekDay {
    fn from(weekday: usize) -> Self {
        use WeekDay::*;
        const WEEKDAY_TABLE: [WeekDay; 7] = [
            Sunday, Monday, Tuesday, Wednesday, Thursday, Friday, Saturday,
        ];
        WEEKDAY_TABLE[weekday - 1]
    }
}
#[derive(Copy, Clone, PartialOrd, PartialEq)]
pub enum Month {
    January = 1,
    February = 2,
    March = 3,
    April = 4,
    May = 5,
    June = 6,
    July = 7,
    August = 8,
    September = 9,
    October = 10,
    November = 11,
    December = 12,
}

impl From<usize> for Month {
    fn from(month: usize) -> Self {
        use Month::*;
        const MONTH_TABLE: [Month; 12] = [
            January, February, March, April, May, June, July, August, September, October, November,
            December,
        ];
        MONTH_TABLE[month - 1]
    }
}
#[derive(Copy, Clone, Eq, PartialEq, Ord, PartialOrd)]
pub struct Date(pub i32);

impl Date {
    pub exec const MIN: Self ensures true { unsafe { Date::from_ymd_unchecked(1, 1, 1) } }
    pub exec const MAX: Self ensures true { unsafe { Date::from_ymd_unchecked(9999, 12, 31) } }
    pub const unsafe fn from_ymd_unchecked(year: i32, month: u32, day: u32) -> Date {
        let date = date2julian(year, month, day) - UNIX_EPOCH_JULIAN;
        Date(date)
    }
    pub const fn try_from_ymd(year: i32, month: u32, day: u32) -> Result<Date> {
        if year < DATE_MIN_YEAR || year > DATE_MAX_YEAR {
            return Err(Error::DateOutOfRange);
        }

        if month < 1 || month > MONTHS_PER_YEAR {
            return Err(Error::InvalidMonth);
        }

        if day < 1 || day > 31 {
            return Err(Error::InvalidDay);
        }

        if day > days_of_month(year, month) {
            return Err(Error::InvalidDate);
        }

        Ok(unsafe { Date::from_ymd_unchecked(year, month, day) })
    }
    pub const fn is_valid(year: i32, month: u32, day: u32) -> bool {
        if year < DATE_MIN_YEAR || year > DATE_MAX_YEAR {
            return false;
        }

        if month < 1 || month > MONTHS_PER_YEAR {
            return false;
        }

        if day < 1 || day > 31 {
            return false;
        }

        if day > days_of_month(year, month) {
            return false;
        }

        true
    }
    pub const fn validate_ymd(year: i32, month: u32, day: u32) -> Result<()> {
        if year < DATE_MIN_YEAR || year > DATE_MAX_YEAR {
            return Err(Error::DateOutOfRange);
        }

        if month < 1 || month > MONTHS_PER_YEAR {
            return Err(Error::InvalidMonth);
        }

        if day < 1 || day > 31 {
            return Err(Error::InvalidDay);
        }

        if day > days_of_month(year, month) {
            return Err(Error::InvalidDate);
        }

        Ok(())
    }
    pub const fn days(self) -> i32 {
        self.0
    }
    pub const unsafe fn from_days_unchecked(days: i32) -> Self {
        Date(days)
    }
    pub const fn try_from_days(days: i32) -> Result<Self> {
        if is_valid_date(days) {
            Ok(unsafe { Date::from_days_unchecked(days) })
        } else {
            Err(Error::DateOutOfRange)
        }
    }
    pub const fn extract(self) -> (i32, u32, u32) {
        julian2date(self.0 + UNIX_EPOCH_JULIAN)
    }
    pub fn and_hms(self, hour: u32, minute: u32, sec: u32, usec: u32) -> Result<Timestamp> {
        Ok(Timestamp::new(
            self,
            Time::try_from_hms(hour, minute, sec, usec)?,
        ))
    }
    pub const fn and_time(self, time: Time) -> Timestamp {
        Timestamp::new(self, time)
    }
    
    
    pub const fn and_zero_time(self) -> Timestamp {
        Timestamp::new(self, Time::ZERO)
    }
    pub const fn add_days(self, days: i32) -> Result<Date> {
        let result = self.days().checked_add(days);
        match result {
            Some(d) => Date::try_from_days(d),
            None => Err(Error::DateOutOfRange),
        }
    }
    pub fn add_interval_ym_internal(self, interval: IntervalYM) -> Result<Date> {
        let (year, month, day) = self.extract();

        let mut new_month = month as i32 + interval.months();
        let mut new_year = year;

        if new_month > MONTHS_PER_YEAR as i32 {
            new_year += (new_month - 1) / MONTHS_PER_YEAR as i32;
            new_month = (new_month - 1) % MONTHS_PER_YEAR as i32 + 1;
        } else if new_month < 1 {
            new_year += new_month / MONTHS_PER_YEAR as i32 - 1;
            new_month = new_month % MONTHS_PER_YEAR as i32 + MONTHS_PER_YEAR as i32;
        }

        Date::try_from_ymd(new_year, new_month as u32, day)
    }
    pub fn add_interval_ym(self, interval: IntervalYM) -> Result<Timestamp> {
        Ok(self.add_interval_ym_internal(interval)?.and_zero_time())
    }
    pub const fn add_interval_dt(self, interval: IntervalDT) -> Result<Timestamp> {
        self.and_zero_time().add_interval_dt(interval)
    }
    pub const fn add_time(self, time: Time) -> Timestamp {
        self.and_time(time)
    }
    pub const fn sub_date(self, date: Date) -> i32 {
        self.days() - date.days()
    }
    pub const fn sub_days(self, days: i32) -> Result<Date> {
        let result = self.days().checked_sub(days);
        match result {
            Some(d) => Date::try_from_days(d),
            None => Err(Error::DateOutOfRange),
        }
    }
    pub const fn sub_timestamp(self, timestamp: Timestamp) -> IntervalDT {
        self.and_zero_time().sub_timestamp(timestamp)
    }
    pub fn sub_interval_ym(self, interval: IntervalYM) -> Result<Timestamp> {
        Ok(self.add_interval_ym_internal(-interval)?.and_zero_time())
    }
    pub const fn sub_interval_dt(self, interval: IntervalDT) -> Result<Timestamp> {
        self.and_zero_time().sub_interval_dt(interval)
    }
    pub const fn sub_time(self, time: Time) -> Result<Timestamp> {
        self.and_zero_time().sub_time(time)
    }
    pub fn day_of_week(self) -> WeekDay {
        let mut date = self.days() + UNIX_EPOCH_DOW as i32 - 1;
        date = date % 7;
        if date < 0 {
            date += 7;
        }
        WeekDay::from(date as usize + 1)
    }
    
    #[verifier::external_body]
    fn date_to_iso_year(self) -> i32 {
        fn week_day_of_julian(date: i32) -> i32 {
            let mut date = date;
            date = date % 7;
            if date < 0 {
                date += 7;
            }
            date
        }

        let mut year = self.year().unwrap();
        let current_julian_day = self.days() + UNIX_EPOCH_JULIAN;
        let mut fourth_julian_day = date2julian(year, 1, 4);
        let mut offset_to_monday = week_day_of_julian(fourth_julian_day);
        if current_julian_day < fourth_julian_day - offset_to_monday {
            fourth_julian_day = date2julian(year - 1, 1, 4);
            offset_to_monday = week_day_of_julian(fourth_julian_day);
            year -= 1;
        }
        let num_of_week = (current_julian_day - (fourth_julian_day - offset_to_monday)) / 7 + 1;
        if num_of_week >= 52 {
            fourth_julian_day = date2julian(year + 1, 1, 4);
            offset_to_monday = week_day_of_julian(fourth_julian_day);
            if current_julian_day >= fourth_julian_day - offset_to_monday {
                year += 1;
            }
        }

        year
    }
    #[verifier::external_body]
    pub fn round_week_internal(self, year: i32) -> Result<Date> {
        const WEEK_TABLE: [(DateSubMethod, i32); 8] = [
            (current_date, 0),
            (sub_to_date, 1),
            (sub_to_date, 2),
            (sub_to_date, 3),
            (sub_to_date, -3),
            (sub_to_date, -2),
            (sub_to_date, -1),
            (sub_to_date, 0), // Unreachable
        ];

        let week_day = self.sub_date(unsafe { Date::from_ymd_unchecked(year, 1, 1) }) % 7;
        let (to_first_date_of_week, remain_day) = WEEK_TABLE[week_day as usize];
        to_first_date_of_week(self, remain_day)
    }
    #[verifier::external_body]
    pub fn round_month_start_week_internal(self, day: i32) -> Result<Date> {
        const MONTH_START_WEEK_TABLE: [(DateSubMethod, i32); 8] = [
            (sub_to_date, -1),
            (current_date, 0),
            (sub_to_date, 1),
            (sub_to_date, 2),
            (sub_to_date, 3),
            (sub_to_date, -3),
            (sub_to_date, -2),
            (sub_to_date, 0), // Unreachable
        ];

        let week_day = day % 7;
        let (to_first_date_of_week, remain_day) = MONTH_START_WEEK_TABLE[week_day as usize];
        to_first_date_of_week(self, remain_day)
    }
    pub fn last_day_of_month(self) -> Date {
        let (year, month, day) = self.extract();

        let result_day = days_of_month(year, month);
        let result = self.days() + result_day as i32 - day as i32;

        unsafe { Date::from_days_unchecked(result) }
    }
}

impl Trunc for Date {
    fn trunc_century(self) -> Result<Self> {
        let mut year = self.year().unwrap();

        if year % 100 == 0 {
            year -= 1;
        }

        year = year / 100 * 100 + 1;
        Ok(unsafe { Date::from_ymd_unchecked(year, 1, 1) })
    }
    fn trunc_year(self) -> Result<Self> {
        Ok(unsafe { Date::from_ymd_unchecked(self.year().unwrap(), 1, 1) })
    }
    #[verifier::external_body]
    fn trunc_iso_year(self) -> Result<Self> {
        let iso_year = self.date_to_iso_year();
        let first_date = unsafe { Date::from_ymd_unchecked(iso_year, 1, 1) };
        let week_day = first_date.day_of_week() as usize;
        let (to_first_date_of_week, remain_day) = ISO_YEAR_TABLE[week_day];
        to_first_date_of_week(first_date, remain_day)
    }
    fn trunc_quarter(self) -> Result<Self> {
        const QUARTER_FIRST_MONTH: [u32; 12] = [1, 1, 1, 4, 4, 4, 7, 7, 7, 10, 10, 10];

        let (year, month, _) = self.extract();
        let quarter_month = QUARTER_FIRST_MONTH[month as usize - 1];

        Ok(unsafe { Date::from_ymd_unchecked(year, quarter_month, 1) })
    }
    fn trunc_month(self) -> Result<Self> {
        let (year, month, _) = self.extract();
        Ok(unsafe { Date::from_ymd_unchecked(year, month, 1) })
    }
    fn trunc_week(self) -> Result<Self> {
        let trunc_day =
            self.sub_date(unsafe { Date::from_ymd_unchecked(self.year().unwrap(), 1, 1) }) % 7;
        let res_date = self.sub_days(trunc_day)?;
        Ok(res_date)
    }
    #[verifier::external_body]
    fn trunc_iso_week(self) -> Result<Self> {
        const ISO_WEEK_TABLE: [(DateSubMethod, i32); 8] = [
            (sub_to_date, 0), // Unreachable
            (sub_to_date, 6),
            (current_date, 0),
            (sub_to_date, 1),
            (sub_to_date, 2),
            (sub_to_date, 3),
            (sub_to_date, 4),
            (sub_to_date, 5),
        ];

        let week_day = self.day_of_week() as usize;
        let (to_first_date_of_week, remain_day) = ISO_WEEK_TABLE[week_day];
        to_first_date_of_week(self, remain_day)
    }
    fn trunc_month_start_week(self) -> Result<Self> {
        let remain_day = self.day().unwrap() % 7;
        let trunc_day = if remain_day == 0 { 6 } else { remain_day - 1 };
        let res_date = self.sub_days(trunc_day)?;
        Ok(res_date)
    }
    fn trunc_day(self) -> Result<Self> {
        Ok(self)
    }
    fn trunc_sunday_start_week(self) -> Result<Self> {
        let res_date = self.sub_days(self.day_of_week() as i32 - 1)?;
        Ok(res_date)
    }
    fn trunc_hour(self) -> Result<Self> {
        Ok(self)
    }
    fn trunc_minute(self) -> Result<Self> {
        Ok(self)
    }
}
fn current_date(date: Date, _sub_day: i32) -> Result<Date> {
    Ok(date)
}
fn sub_to_date(date: Date, sub_day: i32) -> Result<Date> {
    date.sub_days(sub_day)
}

impl Round for Date {
    fn round_century(self) -> Result<Self> {
        let input_year = self.year().unwrap();
        if input_year > DATE_MAX_YEAR - 50 {
            return Err(Error::DateOutOfRange);
        }

        let mut century = input_year / 100;
        if input_year % 100 == 0 {
            century -= 1;
        } else if input_year % 100 > 50 {
            century += 1;
        }

        let res_year = century * 100 + 1;
        Ok(unsafe { Date::from_ymd_unchecked(res_year, 1, 1) })
    }
    fn round_year(self) -> Result<Self> {
        let (mut year, month, _) = self.extract();
        if month >= 7 {
            if year == DATE_MAX_YEAR {
                return Err(Error::DateOutOfRange);
            }
            year += 1;
        }
        Ok(unsafe { Date::from_ymd_unchecked(year, 1, 1) })
    }
    fn round_iso_year(self) -> Result<Self> {
        let (year, month, _) = self.extract();
        let mut date = self;
        if month >= 7 {
            if year == DATE_MAX_YEAR {
                return Err(Error::DateOutOfRange);
            }
            date = unsafe { Date::from_ymd_unchecked(year + 1, 1, 4) };
        }
        date.trunc_iso_year()
    }
    fn round_quarter(self) -> Result<Self> {
        const QUARTER_ROUND_MONTH: [u32; 12] = [1, 4, 4, 4, 7, 7, 7, 10, 10, 10, 1, 1];
        const QUARTER_TRUNC_MONTH: [u32; 12] = [1, 1, 4, 4, 4, 7, 7, 7, 10, 10, 10, 1];

        let (mut year, month, day) = self.extract();
        let is_round = day >= ROUNDS_UP_DAY;

        let index = month as usize - 1;
        let quarter_month = if is_round {
            if month >= 11 {
                year += 1;
            }
            QUARTER_ROUND_MONTH[index]
        } else {
            if month == 12 {
                year += 1;
            }
            QUARTER_TRUNC_MONTH[index]
        };

        if year > DATE_MAX_YEAR {
            return Err(Error::DateOutOfRange);
        }

        Ok(unsafe { Date::from_ymd_unchecked(year, quarter_month, 1) })
    }
    fn round_month(self) -> Result<Self> {
        let (mut year, mut month, day) = self.extract();
        if day >= ROUNDS_UP_DAY {
            if month == 12 {
                if year == DATE_MAX_YEAR {
                    return Err(Error::DateOutOfRange);
                }
                year += 1;
                month = 1;
            } else {
                month += 1;
            }
        }
        Ok(unsafe { Date::from_ymd_unchecked(year, month, 1) })
    }
    fn round_week(self) -> Result<Self> {
        self.round_week_internal(self.year().unwrap())
    }
    #[verifier::external_body]
    fn round_iso_week(self) -> Result<Self> {
        const ISO_WEEK_TABLE: [(DateSubMethod, i32); 8] = [
            (sub_to_date, 0), // Unreachable
            (sub_to_date, -1),
            (current_date, 0),
            (sub_to_date, 1),
            (sub_to_date, 2),
            (sub_to_date, 3),
            (sub_to_date, -3),
            (sub_to_date, -2),
        ];

        let week_day = self.day_of_week() as usize;
        let (to_first_date_of_week, remain_day) = ISO_WEEK_TABLE[week_day];
        to_first_date_of_week(self, remain_day)
    }
    fn round_month_start_week(self) -> Result<Self> {
        self.round_month_start_week_internal(self.day().unwrap())
    }
    fn round_day(self) -> Result<Self> {
        Ok(self)
    }
    #[verifier::external_body]
    fn round_sunday_start_week(self) -> Result<Self> {
        const SUNDAY_START_WEEK_TABLE: [(DateSubMethod, i32); 8] = [
            (sub_to_date, 0), // Unreachable
            (current_date, 0),
            (sub_to_date, 1),
            (sub_to_date, 2),
            (sub_to_date, 3),
            (sub_to_date, -3),
            (sub_to_date, -2),
            (sub_to_date, -1),
        ];

        let week_day = self.day_of_week() as usize;
        let (to_first_date_of_week, remain_day) = SUNDAY_START_WEEK_TABLE[week_day];
        to_first_date_of_week(self, remain_day)
    }
    fn round_hour(self) -> Result<Self> {
        Ok(self)
    }
    fn round_minute(self) -> Result<Self> {
        Ok(self)
    }
}

impl From<Date> for NaiveDateTime {
    fn from(date: Date) -> Self {
        let (year, month, day) = date.extract();

        NaiveDateTime {
            year,
            month,
            day,
            ..NaiveDateTime::new()
        }
    }
}

impl PartialEq<Timestamp> for Date {
    fn eq(&self, other: &Timestamp) -> bool {
        self.and_zero_time() == *other
    }
}

impl PartialOrd<Timestamp> for Date {
    fn partial_cmp(&self, other: &Timestamp) -> Option<Ordering> {
        Some(self.and_zero_time().usecs().cmp(&other.usecs()))
    }
}

impl TryFrom<&NaiveDateTime> for Date {
    type Error = Error;
    fn try_from(dt: &NaiveDateTime) -> Result<Self> {
        Date::try_from_ymd(dt.year, dt.month, dt.day)
    }
}

impl TryFrom<NaiveDateTime> for Date {
    type Error = Error;
    fn try_from(dt: NaiveDateTime) -> Result<Self> {
        Date::try_from(&dt)
    }
}

impl DateTime for Date {
    fn year(&self) -> Option<i32> {
        let (year, _, _) = self.extract();
        Some(year)
    }
    fn month(&self) -> Option<i32> {
        let (_, month, _) = self.extract();
        Some(month as i32)
    }
    fn day(&self) -> Option<i32> {
        let (_, _, day) = self.extract();
        Some(day as i32)
    }
    fn hour(&self) -> Option<i32> {
        None
    }
    fn minute(&self) -> Option<i32> {
        None
    }
    
    fn date(&self) -> Option<Date> {
        Some(*self)
    }
}


#[derive(Copy, Clone, Eq, PartialEq, Ord, PartialOrd)]
pub struct Timestamp(pub i64);

impl Timestamp {
    pub exec const MIN: Self ensures true { Timestamp::new(Date::MIN, Time::ZERO) }
    pub exec const MAX: Self ensures true { Timestamp::new(Date::MAX, Time::MAX) }
    pub const fn new(date: Date, time: Time) -> Self {
        let usecs = date.days() as i64 * USECONDS_PER_DAY + time.usecs();
        Timestamp(usecs)
    }
    pub const fn extract(self) -> (Date, Time) {
        let (date, time) = if self.0.is_negative() {
            let temp_time = self.0 % USECONDS_PER_DAY;
            if temp_time.is_negative() {
                (self.0 / USECONDS_PER_DAY - 1, temp_time + USECONDS_PER_DAY)
            } else {
                (self.0 / USECONDS_PER_DAY, temp_time)
            }
        } else {
            (self.0 / USECONDS_PER_DAY, self.0 % USECONDS_PER_DAY)
        };

        unsafe {
            (
                Date::from_days_unchecked(date as i32),
                Time::from_usecs_unchecked(time),
            )
        }
    }
    pub fn date(self) -> Date {
        let date = if self.0.is_negative() && self.0 % USECONDS_PER_DAY != 0 {
            self.0 / USECONDS_PER_DAY - 1
        } else {
            self.0 / USECONDS_PER_DAY
        };
        unsafe { Date::from_days_unchecked(date as i32) }
    }
    pub fn time(self) -> Time {
        let temp_time = self.0 % USECONDS_PER_DAY;
        if temp_time.is_negative() {
            unsafe { Time::from_usecs_unchecked(temp_time as i64 + USECONDS_PER_DAY) }
        } else {
            unsafe { Time::from_usecs_unchecked(temp_time as i64) }
        }
    }
    pub const fn usecs(self) -> i64 {
        self.0
    }
    pub const unsafe fn from_usecs_unchecked(usecs: i64) -> Self {
        Timestamp(usecs)
    }
    
    
    pub const fn try_from_usecs(usecs: i64) -> Result<Self> {
        if is_valid_timestamp(usecs) {
            Ok(unsafe { Timestamp::from_usecs_unchecked(usecs) })
        } else {
            Err(Error::DateOutOfRange)
        }
    }
    pub const fn add_interval_dt(self, interval: IntervalDT) -> Result<Timestamp> {
        let result = self.usecs().checked_add(interval.usecs());
        match result {
            Some(ts) => Timestamp::try_from_usecs(ts),
            None => Err(Error::DateOutOfRange),
        }
    }
    pub fn add_interval_ym(self, interval: IntervalYM) -> Result<Timestamp> {
        let (date, time) = self.extract();

        Ok(Timestamp::new(
            date.add_interval_ym_internal(interval)?,
            time,
        ))
    }
    pub const fn add_time(self, time: Time) -> Result<Timestamp> {
        Timestamp::try_from_usecs(self.usecs() + time.usecs())
    }
    
    pub const fn sub_date(self, date: Date) -> IntervalDT {
        let temp_timestamp = date.and_zero_time();
        self.sub_timestamp(temp_timestamp)
    }
    pub const fn sub_time(self, time: Time) -> Result<Timestamp> {
        Timestamp::try_from_usecs(self.usecs() - time.usecs())
    }
    pub const fn sub_timestamp(self, timestamp: Timestamp) -> IntervalDT {
        let microseconds = self.usecs() - timestamp.usecs();
        unsafe { IntervalDT::from_usecs_unchecked(microseconds) }
    }
    pub const fn sub_interval_dt(self, interval: IntervalDT) -> Result<Timestamp> {
        self.add_interval_dt(interval.negate())
    }
    pub fn sub_interval_ym(self, interval: IntervalYM) -> Result<Timestamp> {
        self.add_interval_ym(interval.negate())
    }
    
    
    pub fn last_day_of_month(self) -> Timestamp {
        let (sqldate, _) = self.extract();
        let (year, month, day) = sqldate.extract();

        let result_day = days_of_month(year, month);
        let result = self.usecs() + (result_day - day) as i64 * USECONDS_PER_DAY;

        unsafe { Timestamp::from_usecs_unchecked(result) }
    }
}

impl Trunc for Timestamp {
    fn trunc_century(self) -> Result<Self> {
        Ok(self.date().trunc_century()?.and_zero_time())
    }
    fn trunc_year(self) -> Result<Self> {
        Ok(self.date().trunc_year()?.and_zero_time())
    }
    fn trunc_iso_year(self) -> Result<Self> {
        Ok(self.date().trunc_iso_year()?.and_zero_time())
    }
    fn trunc_quarter(self) -> Result<Self> {
        Ok(self.date().trunc_quarter()?.and_zero_time())
    }
    fn trunc_month(self) -> Result<Self> {
        Ok(self.date().trunc_month()?.and_zero_time())
    }
    fn trunc_week(self) -> Result<Self> {
        Ok(self.date().trunc_week()?.and_zero_time())
    }
    fn trunc_iso_week(self) -> Result<Self> {
        Ok(self.date().trunc_iso_week()?.and_zero_time())
    }
    fn trunc_month_start_week(self) -> Result<Self> {
        Ok(self.date().trunc_month_start_week()?.and_zero_time())
    }
    fn trunc_day(self) -> Result<Self> {
        Ok(self.date().and_zero_time())
    }
    fn trunc_sunday_start_week(self) -> Result<Self> {
        Ok(self.date().trunc_sunday_start_week()?.and_zero_time())
    }
    fn trunc_hour(self) -> Result<Self> {
        Ok(self
            .date()
            .and_time(unsafe { Time::from_hms_unchecked(self.hour().unwrap() as u32, 0, 0, 0) }))
    }
    fn trunc_minute(self) -> Result<Self> {
        let (hour, minute, _, _) = self.time().extract();
        Ok(self
            .date()
            .and_time(unsafe { Time::from_hms_unchecked(hour, minute, 0, 0) }))
    }
}

impl Round for Timestamp {
    fn round_century(self) -> Result<Self> {
        Ok(self.date().round_century()?.and_zero_time())
    }
    fn round_year(self) -> Result<Self> {
        Ok(self.date().round_year()?.and_zero_time())
    }
    fn round_iso_year(self) -> Result<Self> {
        Ok(self.date().round_iso_year()?.and_zero_time())
    }
    fn round_quarter(self) -> Result<Self> {
        Ok(self.date().round_quarter()?.and_zero_time())
    }
    fn round_month(self) -> Result<Self> {
        Ok(self.date().round_month()?.and_zero_time())
    }
    fn round_week(self) -> Result<Self> {
        let (mut date, time) = self.extract();
        if time.hour().unwrap() >= 12 {
            date = date.add_days(1)?;
        }
        let year = date.extract().0;

        Ok(date.round_week_internal(year)?.and_zero_time())
    }
    fn round_iso_week(self) -> Result<Self> {
        let (mut date, time) = self.extract();
        if time.hour().unwrap() >= 12 {
            date = date.add_days(1)?;
        }
        Ok(date.round_iso_week()?.and_zero_time())
    }
    fn round_month_start_week(self) -> Result<Self> {
        let (mut date, time) = self.extract();
        if time.hour().unwrap() >= 12 {
            date = date.add_days(1)?;
        }
        let day = date.extract().2;

        Ok(date
            .round_month_start_week_internal(day as i32)?
            .and_zero_time())
    }
    fn round_day(self) -> Result<Self> {
        let mut date = self.date();
        if self.hour().unwrap() >= 12 {
            date = date.add_days(1)?;
        }
        Ok(date.and_zero_time())
    }
    fn round_sunday_start_week(self) -> Result<Self> {
        let (mut date, time) = self.extract();
        if time.hour().unwrap() >= 12 {
            date = date.add_days(1)?;
        }
        Ok(date.round_sunday_start_week()?.and_zero_time())
    }
    fn round_hour(self) -> Result<Self> {
        let mut date = self.date();
        let (mut hour, minute, _, _) = self.time().extract();
        if minute >= 30 {
            if hour >= 23 {
                date = date.add_days(1)?;
                hour = 0;
            } else {
                hour += 1
            }
        }
        Ok(date.and_time(unsafe { Time::from_hms_unchecked(hour as u32, 0, 0, 0) }))
    }
    fn round_minute(self) -> Result<Self> {
        let mut date = self.date();
        let (mut hour, mut minute, sec, _) = self.time().extract();
        if sec >= 30 {
            if minute == 59 {
                if hour == 23 {
                    date = date.add_days(1)?;
                    hour = 0;
                } else {
                    hour += 1;
                }
                minute = 0;
            } else {
                minute += 1;
            }
        }

        Ok(date.and_time(unsafe { Time::from_hms_unchecked(hour, minute, 0, 0) }))
    }
}

impl From<Timestamp> for NaiveDateTime {
    fn from(ts: Timestamp) -> Self {
        let (date, time) = ts.extract();
        let (year, month, day) = date.extract();
        let (hour, minute, sec, usec) = time.extract();

        NaiveDateTime {
            year,
            month,
            day,
            hour,
            minute,
            sec,
            usec,
            ampm: None,
            negative: false,
        }
    }
}

impl TryFrom<NaiveDateTime> for Timestamp {
    type Error = Error;
    fn try_from(dt: NaiveDateTime) -> Result<Self> {
        Date::validate_ymd(dt.year, dt.month, dt.day)?;
        Time::validate_hms(dt.hour, dt.minute, dt.sec)?;

        let days = date2julian(dt.year, dt.month, dt.day) - UNIX_EPOCH_JULIAN;
        let total_usec = days as i64 * USECONDS_PER_DAY
            + dt.hour as i64 * USECONDS_PER_HOUR
            + dt.minute as i64 * USECONDS_PER_MINUTE
            + dt.sec as i64 * USECONDS_PER_SECOND
            + dt.usec as i64;

        Timestamp::try_from_usecs(total_usec)
    }
}

impl PartialEq<Date> for Timestamp {
    fn eq(&self, other: &Date) -> bool {
        *self == other.and_zero_time()
    }
}

impl PartialOrd<Date> for Timestamp {
    fn partial_cmp(&self, other: &Date) -> Option<Ordering> {
        Some(self.usecs().cmp(&other.and_zero_time().usecs()))
    }
}

impl From<Date> for Timestamp {
    fn from(date: Date) -> Self {
        date.and_zero_time()
    }
}



impl DateTime for Timestamp {
    fn year(&self) -> Option<i32> {
        Timestamp::date(*self).year()
    }
    fn month(&self) -> Option<i32> {
        Timestamp::date(*self).month()
    }
    fn day(&self) -> Option<i32> {
        Timestamp::date(*self).day()
    }
    fn hour(&self) -> Option<i32> {
        self.time().hour()
    }
    fn minute(&self) -> Option<i32> {
        self.time().minute()
    }
    
    fn date(&self) -> Option<Date> {
        Some(Timestamp::date(*self))
    }
}



pub mod oracle {
use super::*;
use super::Date as SqlDate;
use std::cmp::Ordering;
use std::convert::TryFrom;
#[derive(Copy, Clone, Eq, PartialEq, Ord, PartialOrd)]
pub struct Date(pub Timestamp);

impl Date {
    pub exec const MIN: Self ensures true { Date(Timestamp::MIN) }
    pub exec const MAX: Self ensures true { Date(Timestamp::new(SqlDate::MAX, unsafe { Time::from_hms_unchecked(23, 59, 59, 0) })) }
    pub const fn new(date: SqlDate, time: Time) -> Self {
        let time = if time.usecs() % USECONDS_PER_SECOND != 0 {
            unsafe {
                Time::from_usecs_unchecked(time.usecs() / USECONDS_PER_SECOND * USECONDS_PER_SECOND)
            }
        } else {
            time
        };
        Date(Timestamp::new(date, time))
    }
    pub const fn usecs(self) -> i64 {
        self.0.usecs()
    }
    pub const fn extract(self) -> (SqlDate, Time) {
        self.0.extract()
    }
    fn date(self) -> SqlDate {
        self.0.date()
    }
    fn time(self) -> Time {
        self.0.time()
    }
    pub const unsafe fn from_usecs_unchecked(usecs: i64) -> Self {
        Date(Timestamp::from_usecs_unchecked(usecs))
    }
    pub const fn try_from_usecs(usecs: i64) -> Result<Self> {
        if Self::is_valid_date(usecs) {
            Ok(unsafe { Date(Timestamp::from_usecs_unchecked(usecs)) })
        } else {
            Err(Error::DateOutOfRange)
        }
    }
    const fn is_valid_date(usecs: i64) -> bool {
        is_valid_timestamp(usecs) && usecs % USECONDS_PER_SECOND == 0
    }
    
    
    pub fn add_interval_dt(self, interval: IntervalDT) -> Result<Date> {
        Ok(Date::from(self.0.add_interval_dt(interval)?))
    }
    pub fn add_interval_ym(self, interval: IntervalYM) -> Result<Date> {
        Ok(Date::from(self.0.add_interval_ym(interval)?))
    }
    pub const fn add_time(self, time: Time) -> Result<Timestamp> {
        self.0.add_time(time)
    }
    
    
    pub fn sub_timestamp(self, timestamp: Timestamp) -> IntervalDT {
        self.0.sub_timestamp(timestamp)
    }
    pub fn sub_interval_dt(self, interval: IntervalDT) -> Result<Date> {
        self.add_interval_dt(-interval)
    }
    pub const fn sub_time(self, time: Time) -> Result<Timestamp> {
        self.0.sub_time(time)
    }
    pub fn sub_interval_ym(self, interval: IntervalYM) -> Result<Date> {
        self.add_interval_ym(-interval)
    }
    
    
    pub fn last_day_of_month(self) -> Date {
        self.0.last_day_of_month().into()
    }
}

impl Trunc for Date {
    fn trunc_century(self) -> Result<Self> {
        Ok(self.0.trunc_century()?.into())
    }
    fn trunc_year(self) -> Result<Self> {
        Ok(self.0.trunc_year()?.into())
    }
    fn trunc_iso_year(self) -> Result<Self> {
        Ok(self.0.trunc_iso_year()?.into())
    }
    fn trunc_quarter(self) -> Result<Self> {
        Ok(self.0.trunc_quarter()?.into())
    }
    fn trunc_month(self) -> Result<Self> {
        Ok(self.0.trunc_month()?.into())
    }
    fn trunc_week(self) -> Result<Self> {
        Ok(self.0.trunc_week()?.into())
    }
    fn trunc_iso_week(self) -> Result<Self> {
        Ok(self.0.trunc_iso_week()?.into())
    }
    fn trunc_month_start_week(self) -> Result<Self> {
        Ok(self.0.trunc_month_start_week()?.into())
    }
    fn trunc_day(self) -> Result<Self> {
        Ok(self.0.trunc_day()?.into())
    }
    fn trunc_sunday_start_week(self) -> Result<Self> {
        Ok(self.0.trunc_sunday_start_week()?.into())
    }
    fn trunc_hour(self) -> Result<Self> {
        Ok(self.0.trunc_hour()?.into())
    }
    fn trunc_minute(self) -> Result<Self> {
        Ok(self.0.trunc_minute()?.into())
    }
}

impl Round for Date {
    fn round_century(self) -> Result<Self> {
        Ok(self.0.round_century()?.into())
    }
    fn round_year(self) -> Result<Self> {
        Ok(self.0.round_year()?.into())
    }
    fn round_iso_year(self) -> Result<Self> {
        Ok(self.0.round_iso_year()?.into())
    }
    fn round_quarter(self) -> Result<Self> {
        Ok(self.0.round_quarter()?.into())
    }
    fn round_month(self) -> Result<Self> {
        Ok(self.0.round_month()?.into())
    }
    fn round_week(self) -> Result<Self> {
        Ok(self.0.round_week()?.into())
    }
    fn round_iso_week(self) -> Result<Self> {
        Ok(self.0.round_iso_week()?.into())
    }
    fn round_month_start_week(self) -> Result<Self> {
        Ok(self.0.round_month_start_week()?.into())
    }
    fn round_day(self) -> Result<Self> {
        Ok(self.0.round_day()?.into())
    }
    fn round_sunday_start_week(self) -> Result<Self> {
        Ok(self.0.round_sunday_start_week()?.into())
    }
    fn round_hour(self) -> Result<Self> {
        Ok(self.0.round_hour()?.into())
    }
    fn round_minute(self) -> Result<Self> {
        Ok(self.0.round_minute()?.into())
    }
}

impl Timestamp {
    pub const fn oracle_sub_date(self, date: Date) -> IntervalDT {
        self.sub_timestamp(date.0)
    }
    
    
}

impl DateTime for Date {
    fn year(&self) -> Option<i32> {
        Date::date(*self).year()
    }
    fn month(&self) -> Option<i32> {
        Date::date(*self).month()
    }
    fn day(&self) -> Option<i32> {
        Date::date(*self).day()
    }
    fn hour(&self) -> Option<i32> {
        self.time().hour()
    }
    fn minute(&self) -> Option<i32> {
        self.time().minute()
    }
    
    fn date(&self) -> Option<SqlDate> {
        Some(Date::date(*self))
    }
}

impl From<Timestamp> for Date {
    fn from(timestamp: Timestamp) -> Self {
        let usecs = timestamp.usecs();
        let temp = usecs / USECONDS_PER_SECOND * USECONDS_PER_SECOND;
        let result = if usecs < 0 && temp > usecs {
            temp - USECONDS_PER_SECOND
        } else {
            temp
        };

        unsafe { Date(Timestamp::from_usecs_unchecked(result)) }
    }
}

impl From<Date> for Timestamp {
    fn from(input: Date) -> Self {
        input.0
    }
}



impl From<Date> for Time {
    fn from(date: Date) -> Self {
        date.time()
    }
}

impl From<Date> for NaiveDateTime {
    fn from(dt: Date) -> Self {
        let (date, time) = dt.extract();
        let (year, month, day) = date.extract();
        let (hour, minute, sec, usec) = time.extract();

        NaiveDateTime {
            year,
            month,
            day,
            hour,
            minute,
            sec,
            usec,
            ampm: None,
            negative: false,
        }
    }
}

impl TryFrom<NaiveDateTime> for Date {
    type Error = Error;
    fn try_from(dt: NaiveDateTime) -> Result<Self> {
        Ok(Date::from(Timestamp::try_from(dt)?))
    }
}



impl PartialEq<Date> for Timestamp {
    fn eq(&self, other: &Date) -> bool {
        *self == other.0
    }
}

impl PartialOrd<Date> for Timestamp {
    fn partial_cmp(&self, other: &Date) -> Option<Ordering> {
        self.partial_cmp(&other.0)
    }
}

impl PartialEq<Timestamp> for Date {
    fn eq(&self, other: &Timestamp) -> bool {
        self.0 == *other
    }
}

impl PartialOrd<Timestamp> for Date {
    fn partial_cmp(&self, other: &Timestamp) -> Option<Ordering> {
        self.0.partial_cmp(other)
    }
}

impl PartialEq<Date> for SqlDate {
    fn eq(&self, other: &Date) -> bool {
        self.and_zero_time() == other.0
    }
}

impl PartialOrd<Date> for SqlDate {
    fn partial_cmp(&self, other: &Date) -> Option<Ordering> {
        self.and_zero_time().partial_cmp(&other.0)
    }
}

impl PartialEq<SqlDate> for Date {
    fn eq(&self, other: &SqlDate) -> bool {
        self.0 == other.and_zero_time()
    }
}

impl PartialOrd<SqlDate> for Date {
    fn partial_cmp(&self, other: &SqlDate) -> Option<Ordering> {
        self.0.partial_cmp(&other.and_zero_time())
    }
}


}
}
fn main(){}
