use vstd::prelude::*;
use std::ops::Neg;
verus! {

pub const INTERVAL_MAX_MONTH: i32 = 2136000000;

#[derive(Copy, Clone, Debug, Eq, PartialEq, Hash, Ord, PartialOrd)]
#[repr(transparent)]
pub struct IntervalYM(i32);

impl IntervalYM {
    #[verifier::type_invariant]
    spec fn inv(self) -> bool { -2136000000 <= self.0 <= 2136000000 }

    pub closed spec fn m(self) -> int { self.0 as int }
    pub closed spec fn spec_of(m: int) -> IntervalYM { IntervalYM(m as i32) }

    const ZERO: Self = IntervalYM(0);

    pub const unsafe fn from_months_unchecked(months: i32) -> (r: Self) 
        requires -2136000000 <= months <= 2136000000
        ensures r.m() == months
    {
        IntervalYM(months)
    }
    pub const fn months(self) -> (r: i32) ensures r == self.m(), -2136000000 <= r <= 2136000000 {
        proof { use_type_invariant(self); }
        self.0
    }
    pub const fn negate(self) -> (r: IntervalYM) ensures r.m() == -self.m() {
        unsafe { IntervalYM::from_months_unchecked(-self.months()) }
    }
}
impl vstd::std_specs::ops::NegSpecImpl for IntervalYM {
    open spec fn obeys_neg_spec() -> bool { true }
    open spec fn neg_req(self) -> bool { true }
    open spec fn neg_spec(self) -> IntervalYM { IntervalYM::spec_of(-self.m()) }
}
impl Neg for IntervalYM {
    type Output = IntervalYM;

    #[inline]
    fn neg(self) -> Self::Output {
        self.negate()
    }
}
fn test(a: IntervalYM) -> (r: IntervalYM) ensures r.m() == -a.m() {
    -a
}
}
fn main() {}
